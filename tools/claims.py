"""Claim table for MANIFEST.json (edited by hand; tools/gen_manifest.py turns it into the manifest)."""

_BASE_NOTE = ('Trusted: the pyvc encoding of the accepted Python subset (validated by seeded mutants and a CPython '
              'cross-check, not proved), z3 5.1 / cvc5 1.0, floats as reals (A1), uninterpreted str.lower shared by code and '
              'spec (A5), and the listed ghost-sum axioms. Bounded stand-ins are labelled and never counted as discharged.')

CLAIMED = {
    'C06': {
        'category': 'proof',
        'text': 'All VCs generated from the current source of classification.* and analyzer.analyze_transactions are discharged '
                '(bucket partition, conservation, pinned per-group arrays via loop invariants over ghost sums, partition/swap lemmas); '
                'a bounded differential oracle on the real code is a labelled extra.',
        'level_note': _BASE_NOTE,
        'technique': 'contract-based deductive verification (self-generated VCs from the real AST, z3/cvc5) + bounded oracle as labelled stand-in',
    },
}

CLAIMED['C13'] = {
    'category': 'proof',
    'text': 'Two-program equivalence through common spec functions: the JS classification block (parsed from spending_report.js on '
            'every run by a JS-subset front end) and the Python functions are both symbolically executed and every VC is discharged, '
            'for all amounts and tag lists; node-vs-CPython differential run and exhaustive lower-casing comparison are labelled extras.'
            ' Added: call-site clause - every per-transaction classification in the report script uses the tags of the transaction itself (txn.tags); the filtered totals of the report script are run under node by the bounded oracle.',
    'level_note': _BASE_NOTE + ' Additionally trusted: the JS-subset front end and its translation table (A11).',
    'technique': 'contract-based deductive verification of both programs against shared spec functions (self-generated VCs, z3/cvc5) + bounded differential oracle',
}

_MATCH_NOTE = (_BASE_NOTE + ' Callee contracts used at the call sites of match() (pure functions of their arguments raising at most '
               'ExpressionError) are hypotheses here and obligations of C07/C08; regular expressions are opaque (A6).')
CLAIMED['C01'] = {
    'category': 'proof',
    'text': 'Loop invariants over ghost functions Filt/First/TagsU on the real MerchantEngine.match (any number and order of rules, per-rule outcome '
            'uninterpreted) give the first-match postcondition; least-index, suffix-irrelevance and non-influence lemmas by induction; all VCs discharged. '
            ' Added after independent bug hunting: apply_transforms under contract (one transform from any state is stored where expressions read the field).'
            ' Added in seeding round 6: the legacy CSV loop of normalize_merchant under contract (loop invariant with a first-matching-categorizing-row ghost over the 7-tuples of get_all_rules; '
            'what an expression pattern, a regular expression and a modifier mean stays uninterpreted); the cache contracts of parse_expression and regex() (C07) are part of this check.',
    'level_note': _MATCH_NOTE,
    'technique': 'contract-based deductive verification (loop invariants + ghost functions, z3/cvc5) + bounded small-scope oracle for the parts not yet under contract',
}
CLAIMED['C02'] = {
    'category': 'proof',
    'text': 'all_tags == TagsU(k) invariant (set iteration order havocked) and neutrality postconditions on match() in both modes; candidate-list '
            'comprehensions and max() in most_specific mode under Sel/ArgMax ghost contracts; all VCs discharged; bounded oracle incl. legacy CSV is a labelled extra.'
            ' Added: MerchantEngine._resolve_tags never yields the empty tag (loop invariants).',
    'level_note': _MATCH_NOTE,
    'technique': 'contract-based deductive verification (loop invariants + ghost functions, z3/cvc5) + bounded small-scope oracle',
}
CLAIMED['C09'] = {
    'category': 'proof',
    'text': 'calculate_specificity proved equal to the statement\'s ranking key read from the parsed match expression (ghost folds over ast.walk: pattern calls, their string arguments, constraint kinds); match() in most_specific mode proved to return the first maximal '
            'element (ArgMax ghost) of the matching categorizing rules; first-max and adjacent-swap lemmas by induction; all VCs discharged.',
    'level_note': _MATCH_NOTE + ' max(list, key) is modelled as the fold keeping the first maximal element.',
    'technique': 'contract-based deductive verification (loop invariants, Sel/ArgMax ghost functions, z3/cvc5) + bounded small-scope oracle over all rule orders',
}

CLAIMED['C07'] = {
    'category': 'proof',
    'text': 'Representation invariants of the three process-wide caches (expression cache, regex cache, cached engine) proved as pre/post '
            'conditions of the real parse_expression, TransactionContext._fn_regex and get_all_rules, so by induction over histories every lookup '
            'equals a cold computation; frame clauses (nothing reachable from rules, rows, variables or the transaction is written, evaluator scope is '
            'per instance, parse() starts from empty state) for 80+ functions by the syntactic back end; history oracle is a labelled extra.'
            ' Added: frames across calls - what a callee writes through a parameter is handed only fresh state or state the caller may itself write (least fixpoint over the six classification modules).',
    'level_note': _BASE_NOTE + ' ast.parse, re.compile, Pattern.search and load_merchants_file are uninterpreted deterministic functions that may raise; '
                  'the structural frame checker is conservative and part of the trusted base.',
    'technique': 'contract-based deductive verification (cache representation invariants by symbolic execution + z3; frame clauses by a syntactic checker) + bounded history oracle',
}

CLAIMED['C08'] = {
    'category': 'proof',
    'text': 'raises-clauses function by function: the two evaluator dispatchers let only ExpressionError escape whatever the dispatched method '
            'raises (every Exception subclass explored), the public entry points raise at most ExpressionError, and every caller on the classification '
            'and view path (match, _evaluate_*, _resolve_tags, apply_transforms, _resolve_dynamic_tags, normalize_merchant, evaluate_variables, '
            'evaluate_section_filter, classify_merchants) raises nothing, each discharged from callee contracts plus its own handlers. In every item loop of those callers no exception '
            'leaves the loop body: a failing transform / binding / field / tag / variable / view is skipped and the items after it are still processed.'
            ' Added: per-iteration contract of _evaluate_let_bindings - a binding that cannot be evaluated leaves its name unbound and changes no other name.',
    'level_note': _BASE_NOTE + ' Values of unknown dynamic type are over-approximated (any operation may raise the operator/lookup errors); '
                  'BaseException-only classes and resource exhaustion are outside the claim.',
    'technique': 'contract-based deductive verification of raises-clauses (symbolic execution with exception outcomes of callees from their contracts) + bounded oracle of failing expressions in every position',
}

CLAIMED['C03'] = {
    'category': 'proof',
    'text': 'validate_ast proved by structural induction over the tree (returns only for whitelisted trees, raises only UnsafeNodeError); dispatch closure, '
            'calls and assigns clauses for every method of the four evaluator/context classes and the entry points decided syntactically over the real AST '
            '(closed callee table, no reflective constructs, no write outside the evaluator scope and the two caches); escape corpus under an audit hook is a labelled extra.'
            ' Added: TransactionEvaluator.evaluate never returns a generator object; literals must be data (Constant values); lazy evaluation confined to consuming builtins.',
    'level_note': _BASE_NOTE + ' The closed callee table (SAFE_NAMES / SAFE_ATTRS in props/C03.py) is audited by hand and trusted; ast.iter_child_nodes yields all children (A7).',
    'technique': 'contract-based deductive verification (structural induction on validate_ast via symbolic execution + z3; calls/assigns/dispatch clauses by a syntactic checker) + bounded escape-corpus oracle under sys.addaudithook',
}

CLAIMED['C05'] = {
    'category': 'proof',
    'text': 'Loop invariant transactions == Map(T, Filter(WF, rows[0..k))) proved on the real parse_generic_csv for three FormatSpec shapes with symbolic '
            'column positions, date format, sign flags and separators (WF and T written from the statement), with a call-site clause for normalize_merchant; '
            'parse_amount structure and finiteness proved against the float() contract. Text->number, strptime and the csv reader are uninterpreted here and '
            'covered by the labelled bounded oracle (exhaustive amount grammar, real files).',
    'level_note': _BASE_NOTE + ' datetime.strptime, float(), re.sub, str.strip/replace/split are uninterpreted; _iter_rows_with_delimiter (generator over a file handle) is bounded-only.',
    'technique': 'contract-based deductive verification (row-loop invariant over ghost Map/Filter, z3/cvc5) + bounded oracle (exhaustive amount grammar, CSV files)',
}

CLAIMED['C18'] = {
    'category': 'proof',
    'text': 'parse_format_string proved modulo an opaque tokenizer: loop invariants tie field positions, captures, date format and sign mode to positional ghost folds over '
            'the comma-separated parts (any number of columns), postconditions from the statement, validation exits raise only ValueError, position-reading lemma by induction; '
            'the tokenizer regex and the `tally inspect` round trip are covered by the labelled bounded oracle (exhaustive small arrangements).'
            ' Added: _template_fields under contract (references read by the grammar of str.format).',
    'level_note': _BASE_NOTE + ' The tokenizer regular expression is uninterpreted (A6).',
    'technique': 'contract-based deductive verification (loop invariants over positional ghost folds, z3/cvc5) + bounded exhaustive-arrangement oracle incl. inspect round trip',
}

CLAIMED['C17'] = {
    'category': 'proof',
    'text': 'MerchantEngine._add_rule proved for all key-presence combinations (exactly one rule with exactly the stated properties appended in file order, or MerchantParseError '
            'for a missing match, neither category nor tags, or an invalid let/field/match expression); parse_sections (views files) proved by a loop invariant over the lines '
            'with uninterpreted line classifiers: one view per [header] in file order with its own name and line number, recorded only with a non-empty filter, property lines classified on their '
            'stripped text, every rejection a SectionParseError naming the offending line; MerchantEngine.parse (rules files) by a loop invariant as well: _add_rule is called exactly once per [header], in file order, with the header line number, the last open rule is closed at end of file, every rejection is a MerchantParseError naming the line being read or the header of the rejected rule (the content collected for a rule is abstract there: _add_rule contract + oracle). '
            'Whole-file layout / corruption / reporting sentences are exercised by the labelled bounded oracle. One recorded known finding (unloadable file read as empty).'
            ' Added: MerchantEngine.parse passes over a line in silence only if it is blank or a comment; view names pairwise distinct; _check_merchant_migration hands a .rules file to _report_unloadable_rules before its rules are used, whatever --quiet and --migrate say.',
    'level_note': _BASE_NOTE + ' The per-line regex classifiers are opaque (A6); in the line loop of MerchantEngine.parse() the rule being collected (a dict with a growing key set) is an opaque object: which properties reach _add_rule is covered by syntactic clauses and the bounded oracle.',
    'technique': 'contract-based deductive verification (_add_rule and the line loops of parse_sections and parse by symbolic execution with loop invariants over ghost folds + z3; syntactic information-flow clauses) + bounded metamorphic/corruption oracle',
}

CLAIMED['C10'] = {
    'category': 'proof',
    'text': 'evaluate_section_filter proved equal to the truth of the filter over the merchant\'s own payments and globals+locals (False when not evaluable, raises nothing); '
            'call-site clauses on the real nested loops of classify_merchants (filter asked once per merchant and view with that merchant\'s transactions and globals; '
            'listed in exactly that view iff true; no early exit); compute_section_totals; frames syntactically. The documented primitives and whole-run membership '
            'are checked by the labelled bounded oracle.'
            ' Added: evaluate_variables under contract (each variable sees the ones before it, is stored under its lower-cased name, an unevaluable one is left undefined); view names pairwise distinct (C17 harness).',
    'level_note': _BASE_NOTE + ' expr_parser.evaluate is an uninterpreted deterministic function raising at most ExpressionError (C08); primitives months/total/cv/by() are bounded-only.',
    'technique': 'contract-based deductive verification (symbolic execution with call-site clauses, z3; syntactic frames) + bounded oracle against an independent specification of the primitives',
}

CLAIMED['C11'] = {
    'category': 'proof',
    'text': 'Function-level proof on the real cmd_run with symbolic configuration and uninterpreted callees: loop invariant all_txns == concatenation of the included '
            'sources\' parse calls (each with that source\'s path, format spec, name, decimal separator and the configured rules / transforms / supplemental data), '
            'call-site clauses for analysis, views and the selected renderer in all four output formats; load_config\'s rules-file selection, rule-mode validation and '
            'view loading proved. Process-level behaviour is exercised by the labelled bounded oracle (real runs on generated budget directories).',
    'level_note': _BASE_NOTE + ' argparse, YAML, os.path and process start-up are outside the verified text (A10); callees are uninterpreted deterministic functions of their arguments.',
    'technique': 'contract-based deductive verification (loop invariant + call-site argument clauses on cmd_run / load_config, z3) + bounded oracle running tally up on generated budgets',
}

CLAIMED['C16'] = {
    'category': 'proof',
    'text': 'Relational wiring proof: the source loops of cmd_discover and cmd_explain satisfy the same loop invariant, over the same uninterpreted terms (included sources, '
            'parse calls with the configured rules / transforms / supplemental data), as cmd_run; _check_merchant_migration (no migration) returns the configured get_all_rules '
            'call; the Unknown filter of discover is a syntactic clause. Command-level agreement (merchant, category, subcategory, rule, counts) is exercised by the labelled '
            'bounded oracle; explain_description (raw description with amount) and normalize_merchant are proved to ask the loaded engine the same question (same transformed description, amount, supplemental rows) and to report its merchant / category / subcategory, or Unknown with the name extracted from the transformed description; four deviations of explain found by the oracle were repaired in ed5cf4c and 26d1609.',
    'level_note': _BASE_NOTE + ' Callees are uninterpreted; argparse and process start-up are outside the verified text (A10).',
    'technique': 'contract-based deductive verification (relational loop invariants shared with cmd_run, z3) + bounded oracle comparing up / discover / explain on generated budgets',
}

CLAIMED['C20'] = {
    'category': 'proof',
    'text': 'Write-site closure: the file-system write primitives of the package are re-enumerated from the AST on every run and the sites reachable over the static call '
            'graph from up / explain / discover / diag / inspect must lie in the allowed set (report writer; migration helper for up only). Proved by symbolic execution over a '
            'ghost file system: migration is reached only on --migrate or an interactive y, only for a legacy CSV, with backup; the report goes to args.output or '
            '<budget>/<output_dir>/<html_filename>; init_config writes only non-existing files, cmd_init only appends to an existing settings.yaml and migrates only an existing '
            'CSV without rules file. Byte-level before/after comparison is the labelled bounded oracle.',
    'level_note': _BASE_NOTE + ' Name-based static call graph and syntactic recognition of write primitives (pyvc/callgraph.py) are trusted and conservative; exists() is uninterpreted (A9).',
    'technique': 'contract-based deductive verification (frame/assigns(fs) clauses: call-graph closure + guard path conditions by symbolic execution over a ghost file system, z3) + bounded before/after oracle',
}

CLAIMED['C15'] = {
    'category': 'proof',
    'text': 'Every effect boundary (crash point, with torn writes) and every single-OSError exit of the real _migrate_csv_to_rules and migrate_v0_to_v1 is enumerated by '
            'symbolic execution over a ghost file system and checked: no user content lost; the budget classifies with the user\'s rules now or after re-running; never an empty '
            'rule set while the rules are on disk. effective_rules(fs) is the selection function proved for load_config (C11). Start states include budgets that already have target files (a hand-written merchants.rules, an older .bak, a ./tally/ with sub-directories), settings texts that only mention the key, '
            'and the settings update goes through a temporary file and an atomic rename (the torn key line that used to be a recorded finding is repaired). '
            'Buffered writes stay in flight until the file is closed. Fault injection on real directories is the labelled bounded oracle.',
    'level_note': _BASE_NOTE + ' File-system model A9: atomic rename, any prefix of a write may persist, single crash or single fault, paths are atoms; conversion fidelity is C14.',
    'technique': 'contract-based deductive verification over a ghost file system (obligation at every effect boundary of the real functions) + bounded fault-injection oracle on real directories',
}

CLAIMED['C19'] = {
    'category': 'other',
    'text': 'Deductively discharged: the structure of the rule text suggest_merchants_rule emits (header, match line built from suggest_match_expr, category/subcategory/tags lines) '
            'and the escaping of one word into a string literal, for all names/patterns/tags. The sentence that the suggested rule matches its description depends on regular-expression '
            'and string-literal-tokenizer semantics that no contract within reach expresses; it is decided only by the labelled bounded stand-in (token-set enumeration on the real '
            'discover/loader/matcher and the discover-append-discover loop), hence level other, not proof.'
            ' Added: _matched_description (the pattern is suggested from the text the rules see) and the clause that every suggest_pattern call takes it.',
    'level_note': _BASE_NOTE + ' Regular expressions and the Python tokenizer are not modelled (A6): bounded-only for the matching direction.',
    'technique': 'contract-based deductive verification for the emitted-text structure (symbolic execution, z3); bounded stand-in (labelled) for the matching direction',
}

CLAIMED['C14'] = {
    'category': 'proof',
    'text': 'For every modifier kind and for shapes of several modifiers, the real _modifier_to_expr is run on sentinel values, its output is parsed by CPython and given the documented '
            'meaning with sentinels replaced by symbols, the real check_all_conditions / evaluate_*_condition are executed symbolically, and the two meanings are proved equal for all amounts '
            'and dates; the escaping structure of the regex() literal is proved; csv_to_merchants_content is proved to write the header and then exactly one rule block per CSV row, in file order, nothing skipped or merged (loop invariant over a ghost fold of blocks). Decoding of the literal, the line-level round trip through the .rules parser and whole-file classification are '
            'exercised by the labelled bounded oracle. Three recorded known findings (relative dates dropped, patterns starting with "(", surrounding blanks in names).',
    'level_note': _BASE_NOTE + ' Regular expressions opaque (A6); float repr round trip and date ordinals assumed; the meaning function of the emitted fragment is the documented one (C04).',
    'technique': 'contract-based deductive verification (sentinel execution of the converter + symbolic execution of the CSV evaluators, equivalence by z3) + bounded differential oracle on CSV vs migrated files',
}

CLAIMED['C12'] = {
    'category': 'proof',
    'text': 'make_merchant_id proved against a representation invariant of the state shared by all calls of one report (every recorded id is in used_ids, different names have different ids): one call from any such state returns the recorded id of a known name unchanged, or an unused id that is then recorded, and preserves the invariant - so ids are injective and stable for any number of merchants (while loop cut at its invariant, no bound); definite-assignment clause '
            '(every name read in a renderer is bound), figure data-flow clauses (each renderer shows the analysed stats fields) and embedding clauses (escaping replaces present, data substituted last, '
            'transaction ids indexed) decided syntactically over the real AST. The replace_all string obligation is beyond both solvers; it, the html.parser+json round trip and the category sums are '
            'exercised by the labelled bounded oracle. make_section_id (view ids) is proved injective the same way; the JSON summary copies the analysed figures (the former recorded finding is repaired).'
            ' Added: make_section_id injective; views keyed by allocated ids.',
    'level_note': _BASE_NOTE + ' HTML and JSON parsers outside the verified text (A10); definite assignment is flow-insensitive.',
    'technique': 'contract-based deductive verification (symbolic execution of make_merchant_id + z3; syntactic definite-assignment / data-flow / embedding clauses) + bounded decode round-trip oracle',
}

CLAIMED['C04'] = {
    'category': 'proof',
    'text': 'Per-method contracts on the real _eval_BoolOp, _eval_UnaryOp, _eval_BinOp, _eval_IfExp and _eval_Compare of both evaluators, with the recursive evaluate(child) replaced by its contract '
            '(a value or ExpressionError: structural induction): and/or decided by the first deciding operand and nothing after it evaluated (loop invariant over a ghost first-stop fold, stability and '
            'leastness lemmas by induction), a comparison chain is the left-to-right conjunction of links over the operands\' own values (invariant left == value of operand k), the link meaning of the '
            'reference (case folding of string ==, != and in, ISO date parsing), / and % by zero give 0, not is Boolean negation, a ternary evaluates only the chosen branch; contains, startswith, anyof, trim, '
            'uppercase, lowercase, strip_prefix, strip_suffix, substring and split proved against string-theory specifications with their arity errors; double negation, De Morgan and operand swap as lemmas '
            'over the Boolean semantics with failures; _eval_Name resolves in the stated order (scope, variables, primitives, data sources; name lower-cased), := binds the lower-cased name and nothing else, '
            '_eval_comprehension_loop leaves the scope as it found it for passing and failing items alike (loop invariant, recursive call by contract) and binds the loop variable while conditions and inner '
            'loops run, month/year/day/weekday are those of the date. Regex / fuzzy / extract functions, which rows a comprehension selects, generators (yield) and any/all/sum/len/next are decided only by the '
            'labelled bounded oracle (CPython eval() differential over an exhaustive small grammar, reference tables, metamorphic laws, scope suite). Three defects found and fixed (coerced operand carried '
            'along a chain; strip_suffix with an empty suffix; generator loop variables outliving any()/all()/next()).'
            ' Added: membership in collections under the language equality (_in_collection), date difference in days, _eval_Attribute resolving its base scope-first, MerchantEngine._evaluate_variables (each variable sees the ones before it), scope maps that may hold None.',
    'level_note': _BASE_NOTE + ' Python operators, isinstance, str.lower/upper/strip/split and date.fromisoformat on values of unknown dynamic type are uninterpreted functions of the operands; '
                  'TypeError from an operator is outside these contracts (converted by the dispatcher, C08); regular expressions and difflib are outside the verified text (A6).',
    'technique': 'contract-based deductive verification (per-method contracts by symbolic execution of the real evaluator methods, ghost first-stop folds, z3/cvc5) + bounded oracle (CPython differential, reference tables, laws)',
}

NOT_APPLICABLE = {}
