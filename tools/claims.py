"""Claim table for MANIFEST.json (edited by hand; tools/gen_manifest.py turns it into the manifest)."""

_BASE_NOTE = ('Trusted: the pyvc encoding of the accepted Python subset (validated by seeded mutants and a CPython '
              'cross-check, not proved), z3 5.1 / cvc5 1.0, floats as reals (A1), uninterpreted str.lower shared by code and '
              'spec (A5), and the listed ghost-sum axioms. Bounded stand-ins are labelled and never counted as discharged.')

CLAIMED = {
    'C06': {
        'category': 'proof',
        'text': 'All VCs generated from the current source of classification.* and analyzer.analyze_transactions are discharged '
                '(bucket partition, conservation, pinned per-group arrays via loop invariants over ghost sums, partition/swap lemmas); '
                'a bounded differential oracle on the real code is a labelled extra.',
        'level_note': _BASE_NOTE,
        'technique': 'contract-based deductive verification (self-generated VCs from the real AST, z3/cvc5) + bounded oracle as labelled stand-in',
    },
}

CLAIMED['C13'] = {
    'category': 'proof',
    'text': 'Two-program equivalence through common spec functions: the JS classification block (parsed from spending_report.js on '
            'every run by a JS-subset front end) and the Python functions are both symbolically executed and every VC is discharged, '
            'for all amounts and tag lists; node-vs-CPython differential run and exhaustive lower-casing comparison are labelled extras.',
    'level_note': _BASE_NOTE + ' Additionally trusted: the JS-subset front end and its translation table (A11).',
    'technique': 'contract-based deductive verification of both programs against shared spec functions (self-generated VCs, z3/cvc5) + bounded differential oracle',
}

NOT_APPLICABLE = {}
