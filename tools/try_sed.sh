#!/bin/sh
# tools/try_sed.sh <file-relative-to-repo> <sed-expr> <Cxx> [tier]
F="$1"; E="$2"; C="$3"; T="${4:-quick}"
D=$(mktemp -d /tmp/pyvc-mut.XXXXXX)
mkdir -p "$D/repo"
cp -r /repo/src "$D/repo/"
sed -i "$E" "$D/repo/$F"
if diff -q "$D/repo/$F" "/repo/$F" >/dev/null; then echo "sed made no change"; rm -rf "$D"; exit 9; fi
diff "/repo/$F" "$D/repo/$F" | head -6
cd /verif
PYVC_REPO="$D/repo" ./check "$C" --tier "$T" | grep -v "^  " | cut -c1-400
rc=$?
rm -rf "$D"
