#!/usr/bin/env python3
"""Re-run the checks against every confirmed seeded change under /verif/seeded (scratch worktree of /repo HEAD per change, removed afterwards)
and refresh the verdicts in its meta.json.   usage: tools/recheck_seeded.py [Cxx ...] [-j N]"""
import glob
import json
import os
import re
import subprocess
import sys
import tempfile
from concurrent.futures import ThreadPoolExecutor

VERIF = os.path.dirname(os.path.dirname(os.path.abspath(__file__)))


def sh(cmd):
    return subprocess.run(cmd, shell=True, capture_output=True, text=True)


def run_checks(tree, checks):
    out = {}
    for c in checks:
        env = dict(os.environ, PYVC_REPO=tree)
        p = subprocess.run([os.path.join(VERIF, 'check'), c, '--tier', 'quick'], capture_output=True, text=True, env=env, cwd=VERIF, timeout=3600)
        lines = [l for l in p.stdout.splitlines() if l.startswith(('VIOLATION', 'UNDECIDED', 'HELD', 'KNOWN'))]
        stats = next((l for l in p.stdout.splitlines() if l.startswith(c + ' tier=')), '')
        m = re.search(r'refuted=(\d+)', stats)
        out[c] = {'exit': p.returncode, 'lines': [l[:300] for l in lines[:4]], 'stats': stats[:300], 'refuted_obligations': int(m.group(1)) if m else None}
    return out


def decided_by(prop, verdicts, known_refuted):
    v = verdicts.get(prop)
    if not v or v['exit'] != 1:
        return ''
    extra = (v['refuted_obligations'] or 0) - known_refuted.get(prop, 0)
    if extra > 0:
        return 'obligation(s) refuted (%d) + replay on the real code' % extra
    others = [c for c, w in sorted(verdicts.items()) if c != prop and w['exit'] == 1 and (w['refuted_obligations'] or 0) - known_refuted.get(c, 0) > 0]
    unsup = re.search(r'unsupported=(\d+)', v.get('stats', ''))
    undec = re.search(r'undecided=(\d+)', v.get('stats', ''))
    if unsup and unsup.group(1) != '0':
        note = 'bounded stand-in of %s (its proof is undecided on the changed code: %s unsupported constructs)' % (prop, unsup.group(1))
    elif undec and undec.group(1) != '0':
        note = 'bounded stand-in of %s (its proof is undecided on the changed code: %s obligations without a solver verdict)' % (prop, undec.group(1))
    else:
        note = 'bounded stand-in of %s (its obligations still discharge)' % prop
    if others:
        note += '; obligations of %s refuted (callee contract this property relies on)' % ', '.join(others)
    return note


def one(d):
    m = json.load(open(os.path.join(d, 'meta.json')))
    t = tempfile.mkdtemp(prefix='recheck-')
    tree = os.path.join(t, 'mut')
    try:
        sh('git -C /repo worktree add --detach %s HEAD' % tree)
        r = sh('git -C %s apply %s' % (tree, os.path.join(d, 'patch.diff')))
        if r.returncode != 0:
            r = sh('patch -p1 -d %s < %s' % (tree, os.path.join(d, 'patch.diff')))
        if r.returncode != 0:
            m['recheck'] = 'patch no longer applies to /repo HEAD'
        else:
            checks = sorted(m.get('checks', {m['property']: 0}))
            if ALL_CHECKS and 'bounded' in m.get('decided_by', ''):
                checks = ALL_IDS
            m['checks'] = run_checks(tree, checks)
            m['detected_by'] = [c for c, v in m['checks'].items() if v['exit'] == 1]
            m['decided_by'] = decided_by(m['property'], m['checks'], KNOWN_REFUTED)
            m['rechecked_at_repo_head'] = sh('git -C /repo rev-parse --short HEAD').stdout.strip()
            m.pop('recheck', None)
        json.dump(m, open(os.path.join(d, 'meta.json'), 'w'), indent=1)
        return '%s/%s %s %s' % (m['property'], m['name'], {c: v['exit'] for c, v in m.get('checks', {}).items()}, m.get('decided_by', m.get('recheck', '')))
    finally:
        sh('git -C /repo worktree remove --force %s' % tree)
        sh('rm -rf %s' % t)


KNOWN_REFUTED = {}
ALL_CHECKS = '--all-checks' in sys.argv
ALL_IDS = ['C%02d' % i for i in range(1, 21)]


def main():
    args = [a for a in sys.argv[1:] if a.startswith('C')]
    j = int(sys.argv[sys.argv.index('-j') + 1]) if '-j' in sys.argv else 3
    for f in glob.glob(os.path.join(VERIF, 'evidence', 'C*.json')):
        e = json.load(open(f))
        KNOWN_REFUTED[e['property_id']] = e['coverage'].get('refuted_known_findings', 0)
    dirs = [os.path.dirname(f) for f in sorted(glob.glob(os.path.join(VERIF, 'seeded', 'C*', '*', 'meta.json')))]
    if args:
        dirs = [d for d in dirs if d.split(os.sep)[-2] in args]
    if '--names' in sys.argv:
        names = sys.argv[sys.argv.index('--names') + 1].split(',')
        dirs = [d for d in dirs if d.split(os.sep)[-1] in names]
    with ThreadPoolExecutor(j) as ex:
        for line in ex.map(one, dirs):
            print(line, flush=True)


if __name__ == '__main__':
    main()
