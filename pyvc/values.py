"""Symbolic value model (typed mode).

Concrete Python values stay concrete (int, float, str, bool, None, tuple, list, dict with
concrete keys).  Symbolic scalars are raw z3 terms (Int -> int, Real -> float, Bool -> bool,
String -> str).  Compound symbolic values are the wrapper classes below.  Mutable containers are
Python objects shared by reference inside one path, so aliasing inside a function behaves as in
CPython; paths never share state (each path is a fresh re-execution).
"""
import z3

from .core import Unsupported

ObjS = z3.DeclareSort('Obj')
StrS = z3.StringSort()
IntS = z3.IntSort()
RealS = z3.RealSort()
BoolS = z3.BoolSort()

_uf_cache = {}


def UF(name, *sorts):
    key = (name,) + tuple(str(s) for s in sorts)
    if key not in _uf_cache:
        _uf_cache[key] = z3.Function(name, *sorts)
    return _uf_cache[key]


class Poison:
    """Value of a local that a cut loop may have assigned and that the contract does not pin."""

    def __init__(self, name):
        self.name = name

    def __repr__(self):
        return '<poison %s>' % self.name


class Obj:
    """Opaque reference to some Python object (possibly None unless stated)."""

    def __init__(self, expr, cls=None):
        self.expr = expr
        self.cls = cls

    def __repr__(self):
        return 'Obj(%s:%s)' % (self.expr, self.cls)


class Rec:
    """A freshly allocated instance / record with concrete field names."""

    def __init__(self, cls, fields):
        self.cls = cls
        self.fields = fields

    def __repr__(self):
        return 'Rec(%s)' % self.cls


class SymOpt:
    """Optional[T] with symbolic presence."""

    def __init__(self, is_some, value):
        self.is_some = is_some
        self.value = value


class SymSeq:
    """Symbolic-length list.  cols: one z3 Seq per tuple component (structure of arrays);
    arity None means a list of scalars/objects (single column)."""

    def __init__(self, cols, arity=None, classes=None, keys=None):
        self.cols = list(cols)
        self.arity = arity
        self.classes = classes or [None] * len(self.cols)
        self.keys = keys          # record mode: list of dict keys, one per column (a list of dicts with these keys tracked)
        self.extractors = None    # record mode: optional callables dict -> value, one per column

    def length(self):
        return z3.Length(self.cols[0])

    def elem(self, i):
        vals = []
        for c, cls in zip(self.cols, self.classes):
            e = c[i]
            vals.append(wrap(e, cls))
        if self.keys is not None:
            return dict(zip(self.keys, vals))
        if self.arity is None:
            return vals[0]
        return tuple(vals)

    def append(self, v):
        if self.keys is not None:
            if self.extractors is not None:
                vs = [ex(v) for ex in self.extractors]       # the contract says how a record (dict or object) maps to the tracked columns
            elif not isinstance(v, dict):
                raise Unsupported('append of a non-dict to a list of records')
            else:
                if any(k not in v for k in self.keys):
                    raise Unsupported('append of a record without the tracked keys %s' % self.keys)
                vs = [v[k] for k in self.keys]
        elif self.arity is None:
            vs = [v]
        else:
            if not isinstance(v, tuple) or len(v) != self.arity:
                raise Unsupported('append of non-%s-tuple to SoA list' % self.arity)
            vs = list(v)
        for j, x in enumerate(vs):
            self.cols[j] = z3.Concat(self.cols[j], z3.Unit(to_z3(x, self.cols[j].sort().basis())))

    def copy(self):
        c = SymSeq(self.cols, self.arity, list(self.classes), self.keys)
        c.extractors = self.extractors
        return c


class SymSet:
    """Set with z3 combinatory-array representation; expr None = empty set of yet-unknown sort."""

    def __init__(self, expr=None, sort=None):
        self.expr = expr
        self.sort = sort

    def resolve(self, sort):
        if self.expr is None:
            self.sort = sort
            self.expr = z3.EmptySet(sort)
        return self.expr

    def add(self, v):
        z = to_z3(v)
        self.resolve(z.sort())
        self.expr = z3.SetAdd(self.expr, z)

    def contains(self, v):
        z = to_z3(v)
        self.resolve(z.sort())
        return z3.IsMember(z, self.expr)

    def copy(self):
        return SymSet(self.expr, self.sort)


class SymMap:
    """dict with symbolic keys: z3 array per tracked field + domain set.  `fields` maps a field
    name (or None for a scalar-valued dict) to a z3 Array(K -> V).  Untracked record fields are
    abstracted away (writes dropped, reads Unsupported)."""

    def __init__(self, ksort, fields, dom=None, default=None, untracked=(), pending=None):
        self.ksort = ksort
        self.fields = dict(fields)
        self.dom = dom if dom is not None else (z3.EmptySet(ksort) if ksort is not None else None)
        self.default = default        # truthy for defaultdict semantics
        self.untracked = set(untracked)
        self.pending = pending        # field -> (range sort, default z3 value) until the key sort is known

    def ensure_sort(self, zk):
        if self.ksort is None:
            self.ksort = zk.sort()
            self.dom = z3.EmptySet(self.ksort)
            for f, (rs, dv) in (self.pending or {}).items():
                self.fields[f] = z3.K(self.ksort, dv)
            self.pending = None
        elif zk.sort() != self.ksort:
            raise Unsupported('map key sort %s vs %s' % (zk.sort(), self.ksort))

    def copy(self):
        m = SymMap(self.ksort, self.fields, self.dom, self.default, self.untracked, self.pending)
        if getattr(self, 'may_hold_none', None) is not None:
            m.may_hold_none = self.may_hold_none
        return m


class MapEntry:
    """Reference to m[k] of a SymMap with record values (so m[k]['f'] += x works)."""

    def __init__(self, m, key):
        self.m = m
        self.key = key


class Untracked:
    """A value the contract chose not to track (abstracted).  Any computation on it is again
    Untracked, a branch on it is nondeterministic (both sides explored), a store of it into tracked
    state is Unsupported.  Sound over-approximation as long as it never reaches tracked state."""

    def __repr__(self):
        return '<untracked>'


class Enumerated:
    """enumerate(seq, start) over a symbolic sequence (only iterated by a cut loop)."""

    def __init__(self, seq, start=0):
        self.seq = seq
        self.start = start


class MapItems:
    """m.items() / m.values() / m.keys() of a SymMap (iteration order not observable)."""

    def __init__(self, m, mode):
        self.m = m
        self.mode = mode


_tuple_sorts = {}


def tuple_sort(sorts):
    key = tuple(str(x) for x in sorts)
    if key not in _tuple_sorts:
        name = 'Tup_' + '_'.join(k.replace(' ', '') for k in key)
        _tuple_sorts[key] = z3.TupleSort(name, list(sorts))
    return _tuple_sorts[key]


class Func:
    """A Python-level model of a callable."""

    def __init__(self, fn, name='<model>'):
        self.fn = fn
        self.name = name


class Closure:
    def __init__(self, node, env, fi):
        self.node = node
        self.env = env
        self.fi = fi


class ClassRef:
    def __init__(self, modname, name, node):
        self.modname = modname
        self.name = name
        self.node = node


class ModuleRef:
    def __init__(self, name):
        self.name = name


# ------------------------------------------------------------------------------------------

def is_sym(v):
    return isinstance(v, z3.ExprRef)


def wrap(e, cls=None):
    if z3.is_expr(e) and e.sort() == ObjS:
        return Obj(e, cls)
    if z3.is_expr(e) and z3.is_seq(e) and e.sort() != StrS:
        return SymSeq([e], None, [cls])      # nested list (e.g. a CSV row inside a list of rows)
    return e


def to_z3(v, sort=None):
    if isinstance(v, Obj):
        return v.expr
    if isinstance(v, z3.ExprRef):
        if sort is not None and v.sort() != sort:
            if sort == RealS and v.sort() == IntS:
                return z3.ToReal(v)
            if sort == IntS and v.sort() == BoolS:
                return z3.If(v, 1, 0)
            raise Unsupported('sort mismatch %s vs %s' % (v.sort(), sort))
        return v
    if isinstance(v, bool):
        if sort == IntS:
            return z3.IntVal(int(v))
        if sort == RealS:
            return z3.RealVal(int(v))
        return z3.BoolVal(v)
    if isinstance(v, int):
        if sort == RealS:
            return z3.RealVal(v)
        return z3.IntVal(v)
    if isinstance(v, float):
        return z3.RealVal(repr(v))
    if isinstance(v, str):
        return z3.StringVal(v)
    if isinstance(v, tuple) and v:
        zs = [to_z3(x) for x in v]
        ts, mk, _ = tuple_sort([z.sort() for z in zs])
        return mk(*zs)
    if isinstance(v, SymSet):
        if v.expr is None:
            if sort is None:
                raise Unsupported('empty set of unknown sort')
            return z3.EmptySet(sort.domain())
        return v.expr
    if isinstance(v, SymSeq) and v.arity is None:
        return v.cols[0]
    if isinstance(v, list) and sort is not None and not v:
        return z3.Empty(sort)
    if isinstance(v, list) and v:
        zs = [to_z3(x) for x in v]
        out = z3.Unit(zs[0])
        for zz in zs[1:]:
            out = z3.Concat(out, z3.Unit(zz))
        return out
    raise Unsupported('cannot convert %r to z3' % (v,))


def seq_col(v, col, sort):
    """Column `col` of a list value as a z3 Seq of `sort` (works for concrete lists too)."""
    if isinstance(v, SymSeq):
        return v.cols[col]
    if isinstance(v, list):
        out = z3.Empty(z3.SeqSort(sort))
        for x in v:
            item = x[col] if isinstance(x, tuple) else x
            out = z3.Concat(out, z3.Unit(to_z3(item, sort)))
        return out
    raise Unsupported('not a list: %r' % (v,))


def set_expr(v, sort):
    if isinstance(v, SymSet):
        return v.resolve(sort) if v.expr is None else v.expr
    if isinstance(v, (set, frozenset)):
        out = z3.EmptySet(sort)
        for x in v:
            out = z3.SetAdd(out, to_z3(x, sort))
        return out
    raise Unsupported('not a set: %r' % (v,))
