"""Static call graph of the package and closure of file-system write primitives (syntactic back end).

Conservative resolution: a call `f(...)` or `x.f(...)` may reach every function or method named `f` defined anywhere in
the package (plus class constructors -> __init__).  Write primitives are recognised syntactically; an `open` whose mode is
not a constant read mode counts as a write.  The closure is recomputed from the AST on every run, so a new write site
that no clause covers is an undischarged obligation.
"""
import ast
import glob
import os

from . import extract

WRITE_CALLS = {
    'shutil.move', 'shutil.copy', 'shutil.copy2', 'shutil.copyfile', 'shutil.copytree', 'shutil.rmtree',
    'os.remove', 'os.unlink', 'os.rename', 'os.replace', 'os.makedirs', 'os.mkdir', 'os.rmdir', 'os.removedirs', 'os.truncate', 'os.chmod',
    'os.symlink', 'os.link', 'os.utime', 'os.system', 'os.popen', 'os.execv', 'os.startfile',
    'subprocess.run', 'subprocess.call', 'subprocess.Popen', 'subprocess.check_call', 'subprocess.check_output',
    'urllib.request.urlretrieve', 'tempfile.mkstemp', 'tempfile.mkdtemp', 'tempfile.NamedTemporaryFile',
}
WRITE_METHODS = {'write_text', 'write_bytes', 'mkdir', 'unlink', 'rename', 'replace', 'touch', 'rmdir', 'symlink_to', 'chmod', 'extractall', 'extract',
                 'rmtree'}


class Site:
    def __init__(self, func, file, line, what, text):
        self.func, self.file, self.line, self.what, self.text = func, file, line, what, text

    def key(self):
        return '%s:%s:%s' % (self.file, self.func, self.what)

    def __repr__(self):
        return '%s:%d %s [%s]' % (self.file, self.line, self.what, self.func)


def _mode_of(call):
    mode = None
    if len(call.args) >= 2:
        mode = call.args[1]
    for k in call.keywords:
        if k.arg == 'mode':
            mode = k.value
    if mode is None:
        return 'r'
    if isinstance(mode, ast.Constant) and isinstance(mode.value, str):
        return mode.value
    return '?'


class Graph:
    def __init__(self):
        self.funcs = {}       # qualified name -> (module name, node)
        self.by_name = {}     # simple name -> [qualified names]
        self.sites = {}       # qualified name -> [Site]
        self.calls = {}       # qualified name -> set of simple names called
        src = os.path.join(extract.SRC, 'tally')
        for path in sorted(glob.glob(os.path.join(src, '**', '*.py'), recursive=True)):
            rel = os.path.relpath(path, extract.SRC)
            modname = rel[:-3].replace(os.sep, '.')
            if modname.endswith('.__init__'):
                modname = modname[:-9]
            try:
                tree = ast.parse(open(path, encoding='utf-8').read())
            except SyntaxError:
                continue
            self._collect(tree, modname, os.path.relpath(path, extract.REPO), prefix=modname)

    def _collect(self, node, modname, file, prefix, cls=None):
        for ch in ast.iter_child_nodes(node):
            if isinstance(ch, (ast.FunctionDef, ast.AsyncFunctionDef)):
                q = prefix + '.' + ch.name
                self.funcs[q] = (modname, ch)
                self.by_name.setdefault(ch.name, []).append(q)
                if cls and ch.name == '__init__':
                    self.by_name.setdefault(cls, []).append(q)
                self._scan(q, ch, file)
                self._collect(ch, modname, file, q)
            elif isinstance(ch, ast.ClassDef):
                self._collect(ch, modname, file, prefix + '.' + ch.name, cls=ch.name)
            elif not isinstance(ch, (ast.expr,)):
                self._collect(ch, modname, file, prefix, cls)

    def _scan(self, q, fn, file):
        sites, calls = [], set()
        nested = set()
        for ch in ast.walk(fn):
            if ch is not fn and isinstance(ch, (ast.FunctionDef, ast.AsyncFunctionDef)):
                for x in ast.walk(ch):
                    nested.add(id(x))
        for n in ast.walk(fn):
            if id(n) in nested and not isinstance(n, (ast.FunctionDef,)):
                pass     # nested functions run with their parent: keep their sites in the parent as well (conservative)
            if isinstance(n, ast.Call):
                text = ast.unparse(n.func)
                simple = text.split('.')[-1]
                calls.add(simple)
                if text in ('open', 'io.open', 'codecs.open', 'builtins.open') or (simple == 'open' and isinstance(n.func, ast.Attribute)):
                    mode = _mode_of(n) if text in ('open', 'io.open', 'codecs.open', 'builtins.open') else (
                        n.args[0].value if n.args and isinstance(n.args[0], ast.Constant) and isinstance(n.args[0].value, str) else 'r' if not n.args else '?')
                    if any(c in mode for c in 'wax+?'):
                        sites.append(Site(q, file, n.lineno, "open(%s)" % mode, ast.unparse(n)[:100]))
                elif text in WRITE_CALLS:
                    sites.append(Site(q, file, n.lineno, text, ast.unparse(n)[:100]))
                elif isinstance(n.func, ast.Attribute) and simple in ('replace', 'rename') and len(n.args) != 1:
                    pass       # str.replace(old, new[, count]) - Path.replace / Path.rename take exactly one argument
                elif isinstance(n.func, ast.Attribute) and simple in WRITE_METHODS:
                    sites.append(Site(q, file, n.lineno, '.' + simple, ast.unparse(n)[:100]))
                elif text in ('exec', 'eval', '__import__'):
                    sites.append(Site(q, file, n.lineno, text, ast.unparse(n)[:100]))
        self.sites[q] = sites
        self.calls[q] = calls

    def reachable(self, entry, stop=()):
        """functions reachable from `entry` (qualified name); `stop` = simple names not to traverse into"""
        seen, todo = set(), [entry]
        while todo:
            q = todo.pop()
            if q in seen or q not in self.funcs:
                continue
            seen.add(q)
            for name in self.calls.get(q, ()):
                if name in stop:
                    continue
                for t in self.by_name.get(name, ()):
                    if t not in seen:
                        todo.append(t)
        return seen

    def write_sites(self, entry, stop=()):
        out = []
        for q in sorted(self.reachable(entry, stop)):
            out.extend(self.sites.get(q, ()))
        return out
