"""pyvc core: path exploration by re-execution, obligations, solver discharge.

A *harness* is a Python callable `h(ctx)` that builds symbolic inputs, assumes the
precondition, symbolically executes a real function of /repo (pyvc.interp) and checks the
postcondition with ctx.check(...).  explore() runs the harness once per path: every symbolic
branch consults a decision vector; untaken alternatives are queued (DFS).  Nothing is merged, so
each obligation is   AND(path assumptions) => goal   over one path.

Every solver call is an external process (z3-new, then /usr/bin/cvc5 on unknown) killed on a
wall-clock deadline.
"""
import hashlib
import itertools
import json
import os
import re
import subprocess
import time
from concurrent.futures import ThreadPoolExecutor

import z3


class Unsupported(Exception):
    """The code uses something outside the accepted subset -> UNDECIDED, never guessed."""


class PathEnd(Exception):
    """Terminate the current path silently (e.g. after re-asserting a loop invariant)."""


class Infeasible(Exception):
    """The current path condition is known to be contradictory."""


class Impure(Exception):
    """Raised in pure mode when an evaluation would fork, assume or emit an obligation."""


class Obligation:
    __slots__ = ('oid', 'kind', 'assumptions', 'goal', 'expect', 'witness', 'where', 'path',
                 'status', 'backend', 'time_s', 'model', 'solver_output', 'meta', 'smt_size')

    def __init__(self, oid, kind, assumptions, goal, expect='unsat', witness=None, where='',
                 path='', meta=None):
        self.oid = oid
        self.kind = kind              # 'property' | 'auxiliary' | 'safety' | 'cover'
        self.assumptions = list(assumptions)
        self.goal = goal
        self.expect = expect          # 'unsat' (proof obligation) | 'sat' (cover / canary)
        self.witness = witness or {}  # name -> z3 term to evaluate in a counter-model
        self.where = where
        self.path = path
        self.status = None            # discharged | refuted | undecided | covered | vacuous
        self.backend = None
        self.time_s = 0.0
        self.model = None
        self.solver_output = ''
        self.meta = meta or {}
        self.smt_size = 0

    def to_json(self):
        return {'id': self.oid, 'kind': self.kind, 'where': self.where, 'path': self.path,
                'status': self.status, 'backend': self.backend, 'time_s': round(self.time_s, 4),
                'smt_bytes': self.smt_size, 'model': self.model, 'meta': self.meta if isinstance(self.meta, dict) else None}


class Ctx:
    """Per-path execution context."""

    def __init__(self, explorer, decisions):
        self.ex = explorer
        self.decisions = list(decisions)
        self.pos = 0
        self.assumptions = []
        self.trace = []
        self.obligations = []
        self.notes = []
        self.pure = 0

    # -- nondeterminism -------------------------------------------------------
    def choose(self, n, label=''):
        """Return an index in range(n); all alternatives are explored over re-executions."""
        if n == 1:
            return 0
        if self.pure:
            raise Impure()
        if self.pos < len(self.decisions):
            d = self.decisions[self.pos]
        else:
            d = 0
            self.decisions.append(0)
            for alt in range(1, n):
                self.ex.todo.append(self.decisions[:self.pos] + [alt])
        self.pos += 1
        self.trace.append('%s=%d' % (label, d) if label else str(d))
        return d

    def branch(self, cond, label='', prune=False):
        """Fork on a symbolic (or concrete) condition; returns a Python bool for this path.
        prune=True: drop a side that a quick in-process check shows infeasible under the path condition."""
        if isinstance(cond, bool):
            return cond
        if not z3.is_bool(cond):
            raise Unsupported('branch on non-boolean %r' % (cond,))
        s = z3.simplify(cond)
        if z3.is_true(s):
            return True
        if z3.is_false(s):
            return False
        # a condition already decided on this path is not forked again
        neg = z3.Not(cond)
        for a in reversed(self.assumptions):
            if a.eq(cond):
                return True
            if a.eq(neg) or (z3.is_not(cond) and a.eq(cond.arg(0))):
                return False
        # note: the *unsimplified* condition is recorded (z3's simplifier introduces internal
        # symbols such as seq.nth_i / seq.nth_u that other solvers cannot read)
        if self.ex.prune or prune:
            t = self._quick(cond)
            f = self._quick(z3.Not(cond))
            if t and not f:
                if not self.pure:
                    self.assumptions.append(cond)
                return True
            if f and not t:
                if not self.pure:
                    self.assumptions.append(z3.Not(cond))
                return False
            if not t and not f:
                raise Infeasible()
        if self.pure:
            raise Impure()
        d = self.choose(2, label)
        if d == 0:
            self.assumptions.append(cond)
            return True
        self.assumptions.append(z3.Not(cond))
        return False

    def _quick(self, extra):
        """Feasibility probe in a killed-on-deadline solver process (z3's in-process timeout is not
        reliable); anything but `unsat` counts as feasible."""
        # paths are re-executed from the start, so the same probes recur: memoise on the (hash-consed) AST ids
        key = (tuple(a.get_id() for a in self.assumptions), extra.get_id())
        hit = self.ex.probe_cache.get(key)
        if hit is not None:
            return hit
        sol = z3.Solver()
        sol.add(*self.assumptions)
        sol.add(extra)
        out, _ = _run([Z3_BIN, '-in', '-smt2', '-T:2'], sol.to_smt2(), 4)
        self.ex.probe_calls += 1
        res = _verdict(out) != 'unsat'
        self.ex.probe_cache[key] = res
        self.ex.probe_keep.append((self.assumptions[:], extra))     # keep the ASTs alive so ids stay unique
        return res


    # -- logic ----------------------------------------------------------------
    def assume(self, f):
        if self.pure:
            raise Impure()
        if isinstance(f, bool):
            if not f:
                raise Infeasible()
            return
        self.assumptions.append(f)

    def check(self, oid, goal, kind='auxiliary', witness=None, where='', meta=None):
        if self.pure:
            raise Impure()
        if isinstance(goal, bool):
            goal = z3.BoolVal(goal)
        ob = Obligation(oid, kind, self.assumptions, goal, 'unsat', witness, where,
                        '/'.join(self.trace), meta)
        self.obligations.append(ob)
        return ob

    def cover(self, oid, where=''):
        ob = Obligation(oid, 'cover', self.assumptions, z3.BoolVal(False), 'sat', None, where,
                        '/'.join(self.trace))
        self.obligations.append(ob)
        return ob

    def fresh(self, name, sort):
        if self.pure:
            raise Impure()      # fresh symbols inside a speculative evaluation would shift later names
        return self.ex.fresh(name, sort)

    def note(self, s):
        self.notes.append(s)


class Explorer:
    def __init__(self, name, prune=False, max_paths=20000):
        self.name = name
        self.todo = []
        self.prune = prune
        self.max_paths = max_paths
        self.counter = itertools.count()
        self.paths = 0
        self.probe_calls = 0
        self.probe_cache = {}
        self.probe_keep = []
        self.infeasible = 0
        self.obligations = []
        self.unsupported = []
        self._fresh_names = {}

    def fresh(self, name, sort):
        # names are deterministic per (path-independent) creation order within a path; a
        # per-path counter keeps the same symbol for the same program point across re-executions
        n = self._cur_counts.get(name, 0)
        self._cur_counts[name] = n + 1
        return z3.Const('%s!%d' % (name, n) if n else name, sort)

    def run(self, harness):
        self.todo = [[]]
        while self.todo:
            dec = self.todo.pop()
            if self.paths >= self.max_paths:
                self.unsupported.append('path budget exceeded (%d)' % self.max_paths)
                break
            self.paths += 1
            self._cur_counts = {}
            ctx = Ctx(self, dec)
            try:
                harness(ctx)
            except PathEnd:
                pass
            except Infeasible:
                self.infeasible += 1
            except Unsupported as e:
                self.unsupported.append('%s [path %s]' % (e, '/'.join(ctx.trace)))
            except Exception as e:
                if type(e).__name__ == 'PyRaise':
                    # an exception escapes the function under contract and the harness did not
                    # expect it: obligation "this path is infeasible" (raises-clause, default empty)
                    ctx.check('raises.none[%s]' % e.cls, False, 'safety', where=getattr(e, 'where', ''))
                else:
                    raise
            self.obligations.extend(ctx.obligations)
        return self


# ------------------------------------------------------------------------------------------
# discharge

Z3_BIN = os.environ.get('PYVC_Z3', 'z3-new')
CVC5_BIN = os.environ.get('PYVC_CVC5', '/usr/bin/cvc5')


def _smt2(ob):
    s = z3.Solver()
    for a in ob.assumptions:
        s.add(a)
    s.add(z3.Not(ob.goal))
    text = s.to_smt2()
    return text


def _get_value_cmd(ob):
    if not ob.witness:
        return ''
    terms = ' '.join(t.sexpr() if hasattr(t, 'sexpr') else str(t) for t in ob.witness.values())
    return '(get-value (%s))\n' % terms


def _run(cmd, text, timeout):
    t0 = time.time()
    try:
        p = subprocess.run(cmd, input=text, capture_output=True, text=True, timeout=timeout)
        out = (p.stdout or '') + (p.stderr or '')
    except subprocess.TimeoutExpired:
        out = 'timeout'
    return out, time.time() - t0


def _verdict(out):
    for line in out.splitlines():
        line = line.strip()
        if line in ('sat', 'unsat', 'unknown'):
            return line
    if out.startswith('timeout'):
        return 'timeout'
    return 'error'


def parse_sexprs(text):
    """Minimal s-expression reader (strings with "" escapes, |quoted symbols|)."""
    toks = re.findall(r'"(?:[^"]|"")*"|\|[^|]*\||[()]|[^\s()]+', text)
    pos = 0

    def rd():
        nonlocal pos
        t = toks[pos]
        pos += 1
        if t == '(':
            lst = []
            while toks[pos] != ')':
                lst.append(rd())
            pos += 1
            return lst
        return t
    out = []
    while pos < len(toks):
        try:
            out.append(rd())
        except IndexError:
            break
    return out


def _unescape_smt_string(s):
    s = s[1:-1].replace('""', '"')

    def rep(m):
        return chr(int(m.group(1) or m.group(2), 16))
    return re.sub(r'\\u\{([0-9a-fA-F]+)\}|\\u([0-9a-fA-F]{4})', rep, s)


def sexpr_to_py(e):
    """Best-effort conversion of a model value to a Python value."""
    if isinstance(e, str):
        if e.startswith('"'):
            return _unescape_smt_string(e)
        if e == 'true':
            return True
        if e == 'false':
            return False
        if re.fullmatch(r'-?\d+', e):
            return int(e)
        if re.fullmatch(r'-?\d+\.\d+', e):
            return float(e)
        return e
    if len(e) == 2 and e[0] == '-':
        v = sexpr_to_py(e[1])
        return -v if isinstance(v, (int, float)) else ['-', v]
    if len(e) == 3 and e[0] == '/':
        a, b = sexpr_to_py(e[1]), sexpr_to_py(e[2])
        if isinstance(a, (int, float)) and isinstance(b, (int, float)) and b:
            return a / b
    if e and e[0] == 'seq.unit' and len(e) == 2:
        return [sexpr_to_py(e[1])]
    if e and e[0] == 'seq.++':
        out = []
        for x in e[1:]:
            v = sexpr_to_py(x)
            out.extend(v if isinstance(v, list) else [v])
        return out
    if len(e) == 2 and e[0] == 'as' or (len(e) == 3 and e[0] == 'as' and e[1] == 'seq.empty'):
        return []
    return [sexpr_to_py(x) for x in e]


def prepare(ob):
    """Main-thread part (the z3 Python API is not thread safe): simplify and serialise."""
    if ob.expect == 'unsat':
        g = z3.simplify(ob.goal)
        if z3.is_true(g):
            ob.status, ob.backend = 'discharged', 'simplify'
            return None
    text = _smt2(ob)
    ob.smt_size = len(text)
    return (text, _get_value_cmd(ob))


CROSSCHECK = False


def discharge_one(ob, budget, prepared):
    """Returns ob with status set.  Proof obligations: unsat => discharged, sat => refuted."""
    if prepared is None:
        return ob
    text, getval = prepared
    total = 0.0
    verdict, out = 'unknown', ''
    z3_out, t = _run([Z3_BIN, '-in', '-smt2', '-T:%d' % max(1, int(budget))], text, budget + 2)
    total += t
    verdict = _verdict(z3_out)
    backend = 'z3'
    out = z3_out
    if verdict not in ('sat', 'unsat'):
        cv_text = text
        if 'String' in text or 'Seq' in text or 'str.' in text or 'seq.' in text:
            flags = ['--strings-exp']
        else:
            flags = []
        cv_out, t = _run([CVC5_BIN, '--lang', 'smt2', '--tlimit=%d' % int(budget * 1000)] + flags,
                         '(set-logic ALL)\n' + cv_text, budget + 2)
        total += t
        v2 = _verdict(cv_out)
        if v2 in ('sat', 'unsat'):
            verdict, backend, out = v2, 'cvc5', cv_out
        else:
            out = z3_out + '\n--cvc5--\n' + cv_out
    if CROSSCHECK and ob.expect == 'unsat' and ob.kind == 'property' and verdict == 'unsat' and backend == 'z3':
        # thorough tier: every z3 `unsat` of a property-level obligation is re-checked by the other solver; a disagreement is never a pass
        flags = ['--strings-exp'] if ('String' in text or 'Seq' in text or 'str.' in text or 'seq.' in text) else []
        cv_out, t = _run([CVC5_BIN, '--lang', 'smt2', '--tlimit=%d' % int(budget * 1000)] + flags, '(set-logic ALL)\n' + text, budget + 2)
        total += t
        v2 = _verdict(cv_out)
        if v2 == 'unsat':
            backend = 'z3+cvc5'
        elif v2 == 'sat':
            verdict, backend, out = 'unknown', 'solver-disagreement', z3_out + '\n--cvc5 says sat--\n' + cv_out
        else:
            backend = 'z3 (cvc5: no verdict)'
    ob.time_s = total
    ob.backend = backend
    ob.solver_output = out[-4000:]
    if ob.expect == 'unsat':
        if verdict == 'unsat':
            ob.status = 'discharged'
        elif verdict == 'sat':
            ob.status = 'refuted'
            _fetch_model(ob, text, budget, getval)
        else:
            ob.status = 'undecided'
    else:
        ob.status = {'sat': 'covered', 'unsat': 'vacuous'}.get(verdict, 'undecided')
    return ob


def _fetch_model(ob, text, budget, getval):
    """Second run asking for witness values (only after a `sat`)."""
    # witness terms that do not occur in the obligation (e.g. an argument the function never reads) have no declaration in the query:
    # they are unconstrained, so they are declared here and the solver picks any value
    extra = ''
    if ob.witness:
        for t in ob.witness.values():
            if z3.is_expr(t) and z3.is_const(t) and t.decl().kind() == z3.Z3_OP_UNINTERPRETED:
                nm = t.decl().name()
                if ('(declare-fun %s ' % nm) not in text and ('(declare-fun |%s| ' % nm) not in text and ('(declare-const %s ' % nm) not in text:
                    qn = nm if re.fullmatch(r'[A-Za-z_][A-Za-z0-9_.!]*', nm) else '|%s|' % nm
                    extra += '(declare-fun %s () %s)\n' % (qn, t.sort().sexpr())
    q = text.replace('(check-sat)', extra + '(check-sat)\n' + _get_value_cmd(ob) + '(get-model)\n')
    out, _ = _run([Z3_BIN, '-in', '-smt2', 'model.completion=true', '-T:%d' % max(1, int(budget))],
                  q, budget + 2)
    ob.solver_output = out[-20000:]
    model = {}
    if ob.witness:
        try:
            idx = out.index('sat') + 3
            sx = parse_sexprs(out[idx:])
            if sx and isinstance(sx[0], list):
                vals = sx[0]
                for (name, _), pair in zip(ob.witness.items(), vals):
                    model[name] = sexpr_to_py(pair[1]) if isinstance(pair, list) and len(pair) == 2 else str(pair)
        except Exception as e:   # model parsing is best effort; the raw output is kept
            model['_parse_error'] = str(e)
    ob.model = model


def discharge_all(obligations, budget=10, workers=None, deadline_s=None):
    """deadline_s: overall wall-clock budget; obligations not started by then stay undecided (a
    verdict needs only one refutation, and a broken tree must not make the check run for ever)."""
    workers = workers or min(16, os.cpu_count() or 4)
    t0 = time.time()

    def guarded(ob, prep):
        if deadline_s is not None and time.time() - t0 > deadline_s and prep is not None:
            ob.status, ob.backend = 'undecided', 'deadline'
            return ob
        return discharge_one(ob, budget, prep)
    proofs = [ob for ob in obligations if ob.expect == 'unsat']
    covers = [ob for ob in obligations if ob.expect != 'unsat']
    prepared = [prepare(ob) for ob in proofs]
    # cover points (vacuity guards) only need ONE satisfiable path each: try the smallest first
    groups = {}
    for ob in covers:
        groups.setdefault(ob.oid, []).append(ob)

    def do_cover(group):
        group.sort(key=lambda o: len(o.assumptions))
        for ob in group[:12]:
            discharge_one(ob, min(budget, 5), cover_prepared[id(ob)])
            if ob.status == 'covered':
                break
        for ob in group:
            if ob.status is None:
                ob.status, ob.backend = 'skipped', None
    cover_prepared = {}
    for g in groups.values():
        g.sort(key=lambda o: len(o.assumptions))
        for ob in g[:12]:
            cover_prepared[id(ob)] = prepare(ob)
    with ThreadPoolExecutor(max_workers=workers) as pool:
        futs = [pool.submit(do_cover, g) for g in groups.values()]
        list(pool.map(lambda p: guarded(p[0], p[1]), zip(proofs, prepared)))
        for f in futs:
            f.result()
    # second pass: an obligation left undecided by a solver timeout is retried with 3x the budget on a quarter of the workers, so that
    # a busy machine (all cores taken by other checks) does not turn a proof into UNDECIDED; deadline-skipped ones are retried too while time remains
    retry = [(ob, pr) for ob, pr in zip(proofs, prepared) if ob.status == 'undecided' and pr is not None]
    if retry and len(retry) <= 400:
        hard = (deadline_s or 600) * 2

        def again(p):
            ob, pr = p
            if time.time() - t0 > hard:
                return ob
            first = ob.time_s
            discharge_one(ob, budget * 3, pr)
            ob.time_s += first
            ob.meta = dict(getattr(ob, 'meta', None) or {}, retried=True)
            return ob
        with ThreadPoolExecutor(max_workers=max(2, workers // 4)) as pool:
            list(pool.map(again, retry))
    return time.time() - t0


def sha256_text(s):
    return hashlib.sha256(s.encode('utf-8')).hexdigest()
