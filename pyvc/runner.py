"""Per-property driver: generate obligations from /repo's current source, discharge them, run the
bounded stand-ins / replay oracles against the real code, decide, write evidence.

Exit codes: 0 held · 1 VIOLATION (line printed) · 2 undecided · 3 checker error.
"""
import importlib
import json
import os
import subprocess
import sys
import time
import traceback

from . import core, extract

VERIF = os.path.dirname(os.path.dirname(os.path.abspath(__file__)))
VENV_PY = os.environ.get('PYVC_REPLAY_PY', '/venv/bin/python')


class Harness:
    def __init__(self, name, fn, functions, prune=False, note=''):
        self.name = name
        self.fn = fn
        self.functions = functions      # qualified names of the real functions executed
        self.prune = prune
        self.note = note


class Result:
    def __init__(self):
        self.obligations = []
        self.unsupported = []
        self.functions = {}
        self.paths = 0
        self.gen_s = 0.0
        self.solve_s = 0.0
        self.errors = []


def generate(harnesses):
    res = Result()
    t0 = time.time()
    for h in harnesses:
        for q in h.functions:
            try:
                fi = extract.find_function(q)
                res.functions[q] = fi.describe()
            except extract.ExtractionError as e:
                res.unsupported.append('%s: %s' % (h.name, e))
        ex = core.Explorer(h.name, prune=h.prune)
        try:
            ex.run(h.fn)
        except extract.ExtractionError as e:
            res.unsupported.append('%s: extraction: %s' % (h.name, e))
        except core.Unsupported as e:
            res.unsupported.append('%s: %s' % (h.name, e))
        except Exception as e:   # engine bug or contract/code mismatch: undecided, never a violation
            res.unsupported.append('%s: internal: %s: %s' % (h.name, type(e).__name__, e))
            res.errors.append(traceback.format_exc())
        for ob in ex.obligations:
            ob.oid = '%s::%s' % (h.name, ob.oid)
        res.obligations.extend(ex.obligations)
        res.unsupported.extend('%s: %s' % (h.name, u) for u in ex.unsupported)
        res.paths += ex.paths
    res.gen_s = time.time() - t0
    return res


def run_oracle(script, tier, seed, extra=None, timeout=3600):
    """Run a bounded stand-in / replay oracle against the real code under the repo's interpreter.
    The oracle prints one JSON object on its last stdout line."""
    cmd = [VENV_PY, os.path.join(VERIF, 'oracles', script), '--tier', tier, '--seed', str(seed)]
    if extra:
        cmd += extra
    env = dict(os.environ)
    env['PYTHONPATH'] = os.path.join(extract.REPO, 'src') + os.pathsep + os.path.join(VERIF, 'oracles')
    env.pop('PYTHONHASHSEED', None)
    t0 = time.time()
    try:
        p = subprocess.run(cmd, capture_output=True, text=True, timeout=timeout, env=env, cwd=VERIF)
    except subprocess.TimeoutExpired:
        return {'error': 'oracle timeout', 'cases': 0, 'failures': [], 'wall_s': time.time() - t0}
    lines = [l for l in p.stdout.strip().splitlines() if l.strip()]
    try:
        out = json.loads(lines[-1])
    except Exception:
        out = {'error': 'oracle produced no JSON (exit %s): %s' % (p.returncode, (p.stdout + p.stderr)[-2000:]),
               'cases': 0, 'failures': []}
    out['wall_s'] = round(time.time() - t0, 2)
    return out


def load_known_findings(pid):
    path = os.path.join(VERIF, 'known_findings.jsonl')
    out = []
    if os.path.exists(path):
        for line in open(path):
            line = line.strip()
            if not line or line.startswith('#'):
                continue
            rec = json.loads(line)
            if rec.get('property') == pid:
                out.append(rec)
    return out


def summarize(obs):
    by_status, by_backend = {}, {}
    for ob in obs:
        by_status[ob.status] = by_status.get(ob.status, 0) + 1
        if ob.status in ('discharged', 'covered'):
            by_backend[ob.backend] = by_backend.get(ob.backend, 0) + 1
    return by_status, by_backend


def main(argv=None):
    argv = argv if argv is not None else sys.argv[1:]
    import argparse
    ap = argparse.ArgumentParser()
    ap.add_argument('prop')
    ap.add_argument('--tier', default=os.environ.get('VERIF_TIER', 'quick'))
    ap.add_argument('--replay', default=None)
    ap.add_argument('--list', action='store_true')
    a = ap.parse_args(argv)
    seed = int(os.environ.get('VERIF_SEED', '0') or 0)
    pid = a.prop
    t0 = time.time()
    try:
        mod = importlib.import_module('props.' + pid)
    except Exception:
        traceback.print_exc()
        return 3
    if a.replay:
        return replay_file(mod, pid, a.replay)
    try:
        return run_property(mod, pid, a.tier, seed, t0)
    except Exception:
        traceback.print_exc()
        return 3


def replay_file(mod, pid, path):
    rec = json.load(open(path))
    oracle = rec.get('oracle')
    if not oracle:
        print('replay file carries no concrete input (obligation %s); solver output follows' % rec.get('obligation'))
        print(rec.get('solver_output', '')[:4000])
        return 1
    out = run_oracle(oracle['script'], 'quick', 0, ['--witness', json.dumps(oracle['witness'])])
    fails = out.get('failures', [])
    if fails:
        print('REPRODUCED property=%s %s' % (pid, json.dumps(fails[0])[:2000]))
        return 1
    print('not reproduced on the current tree: %s' % json.dumps(out)[:1000])
    return 0


def run_property(mod, pid, tier, seed, t0):
    budget = 10 if tier == 'quick' else 60
    core.CROSSCHECK = (tier == 'thorough')
    extract.clear_cache()
    harnesses = mod.harnesses(tier)
    res = generate(harnesses)
    res.solve_s = core.discharge_all(res.obligations, budget=budget, deadline_s=(150 if tier == 'quick' else 1200))
    # structural clauses (assigns / calls / fresh-state), decided syntactically over the same AST
    if hasattr(mod, 'structural'):
        import z3 as _z3
        try:
            clauses = mod.structural(tier, res)
        except extract.ExtractionError as e:
            clauses = []
            res.unsupported.append('structural: %s' % e)
        except Exception as e:
            clauses = []
            res.unsupported.append('structural: internal: %s: %s' % (type(e).__name__, e))
            res.errors.append(traceback.format_exc())
        for c in clauses:
            ob = core.Obligation('structural::' + c.cid, c.kind, [], _z3.BoolVal(True), 'unsat', None, c.where)
            ob.status = {True: 'discharged', False: 'refuted', None: 'undecided'}[c.ok]
            ob.backend = 'syntactic'
            ob.model = {'detail': c.detail}
            res.obligations.append(ob)
    by_status, by_backend = summarize(res.obligations)
    proof_obs = [ob for ob in res.obligations if ob.expect == 'unsat']
    covers = [ob for ob in res.obligations if ob.expect == 'sat']
    refuted = [ob for ob in proof_obs if ob.status == 'refuted']
    undecided = [ob for ob in proof_obs if ob.status == 'undecided']
    # vacuity guards: every cover id must be satisfiable on at least one path
    cover_ok, cover_unknown = {}, {}
    for ob in covers:
        cover_ok[ob.oid] = cover_ok.get(ob.oid, False) or ob.status == 'covered'
        cover_unknown[ob.oid] = cover_unknown.get(ob.oid, False) or ob.status == 'undecided'
    # vacuous = every tried path of the cover point is provably infeasible; a solver `unknown` (typical for
    # string constraints over uninterpreted functions) is reported but is not a vacuity verdict
    vacuous = [k for k, v in cover_ok.items() if not v and not cover_unknown.get(k)]
    cover_undecided = [k for k, v in cover_ok.items() if not v and cover_unknown.get(k)]
    expected_min = getattr(mod, 'MIN_OBLIGATIONS', 1)
    problems = []
    if len(proof_obs) < expected_min:
        problems.append('only %d obligations generated (ledger minimum %d)' % (len(proof_obs), expected_min))
    if vacuous:
        problems.append('vacuous cover points: %s' % vacuous[:5])
    for u in res.unsupported:
        problems.append('unsupported: %s' % u)

    # bounded stand-ins / replay oracles on the real code
    known = load_known_findings(pid)
    open_known = [k for k in known if k.get('status') == 'open']
    bounded = []
    failures = []
    for orc in getattr(mod, 'ORACLES', []):
        extra = []
        hints = [ob.to_json() for ob in refuted[:20]]
        if hints:
            extra = ['--hints', json.dumps(hints)]
        out = run_oracle(orc['script'], tier, seed, extra)
        bounded.append({'name': orc['name'], 'bound': orc.get('bound', ''), 'cases': out.get('cases', 0),
                        'distinct': out.get('distinct', out.get('cases', 0)),
                        'failures': len(out.get('failures', [])), 'wall_s': out.get('wall_s'),
                        'samples': out.get('samples', [])[:3], 'error': out.get('error')})
        if out.get('error'):
            problems.append('oracle %s: %s' % (orc['name'], out['error']))
        for f in out.get('failures', []):
            f['oracle'] = {'script': orc['script'], 'witness': f.get('witness')}
            failures.append(f)

    # match failures against known findings
    new_failures = []
    seen_known = set()
    for f in failures:
        key = f.get('key', '')
        hit = None
        for k in open_known:
            if key == k.get('key') or (k.get('key_prefix') and key.startswith(k['key_prefix'])):
                hit = k
        if hit is not None:
            seen_known.add(hit['key'] if 'key' in hit else hit['key_prefix'])
        else:
            new_failures.append(f)
    # refuted obligations that correspond to open known findings
    new_refuted = []
    for ob in refuted:
        base = ob.oid
        hit = None
        for k in open_known:
            if k.get('obligation') and k['obligation'] in base:
                hit = k
        if hit is not None:
            seen_known.add(hit.get('key') or hit.get('key_prefix') or hit['obligation'])
        else:
            new_refuted.append(ob)

    lines = []
    for k in open_known:
        kk = k.get('key') or k.get('key_prefix') or k.get('obligation')
        lines.append('KNOWN-FINDING: property=%s %s%s' % (pid, k.get('what', kk),
                     '' if kk in seen_known else ' (recorded witness not re-observed in this run)'))

    exit_code = 0
    os.makedirs(os.path.join(VERIF, 'replays'), exist_ok=True)
    violations = 0
    if new_failures:
        f = new_failures[0]
        path = os.path.join(VERIF, 'replays', '%s-%s.json' % (pid, core.sha256_text(json.dumps(f, sort_keys=True, default=str))[:10]))
        rec = {'property': pid, 'obligation': (new_refuted[0].oid if new_refuted else f.get('obligation', 'property-level contract (bounded oracle)')),
               'failed_obligations': [ob.to_json() for ob in new_refuted[:10]],
               'oracle': f.get('oracle'), 'expected': f.get('expected'), 'observed': f.get('observed'),
               'key': f.get('key'), 'reproduced': True, 'call': f.get('call'),
               'functions': res.functions}
        json.dump(rec, open(path, 'w'), indent=1, default=str)
        lines.append('VIOLATION property=%s replay=%s' % (pid, path))
        lines.append('  failing input: %s' % json.dumps(f.get('witness'), default=str)[:600])
        lines.append('  expected: %s | observed: %s' % (str(f.get('expected'))[:300], str(f.get('observed'))[:300]))
        if new_refuted:
            lines.append('  failed obligations: %s' % ', '.join(ob.oid for ob in new_refuted[:6]))
        violations = len(new_failures)
        exit_code = 1
    elif any(ob.kind == 'property' for ob in new_refuted):
        ob = [o for o in new_refuted if o.kind == 'property'][0]
        path = os.path.join(VERIF, 'replays', '%s-%s.json' % (pid, core.sha256_text(ob.oid)[:10]))
        rec = {'property': pid, 'obligation': ob.oid, 'kind': ob.kind, 'where': ob.where, 'path': ob.path,
               'model': ob.model, 'solver_output': ob.solver_output, 'reproduced': False,
               'failed_obligations': [o.to_json() for o in new_refuted[:10]], 'functions': res.functions}
        json.dump(rec, open(path, 'w'), indent=1, default=str)
        lines.append('VIOLATION property=%s replay=%s no-failing-input-found' % (pid, path))
        lines.append('  refuted obligation: %s (model: %s)' % (ob.oid, json.dumps(ob.model, default=str)[:400]))
        violations = 1
        exit_code = 1
    elif new_refuted or undecided or problems:
        exit_code = 2
        for ob in new_refuted[:10]:
            lines.append('UNDECIDED obligation=%s reason=auxiliary obligation refuted, no failing input found on the real code (model: %s)'
                         % (ob.oid, json.dumps(ob.model, default=str)[:300]))
        for ob in undecided[:10]:
            lines.append('UNDECIDED obligation=%s reason=solver gave no verdict within %ss' % (ob.oid, budget))
        for p in problems[:10]:
            lines.append('UNDECIDED reason=%s' % p)

    wall = time.time() - t0
    discharged = sum(1 for ob in proof_obs if ob.status == 'discharged')
    known_refuted = len(refuted) - len(new_refuted)
    level = getattr(mod, 'LEVEL', 'proof')
    samples = []
    for ob in (proof_obs[:3] + proof_obs[-2:]):
        samples.append({'id': ob.oid, 'kind': ob.kind, 'status': ob.status, 'backend': ob.backend,
                        'smt_bytes': ob.smt_size, 'time_s': round(ob.time_s, 4), 'where': ob.where})
    ev = {
        'property_id': pid, 'tier': tier, 'seed': seed, 'level': level,
        'coverage': {
            'obligations': len(proof_obs), 'discharged': discharged,
            'refuted_known_findings': known_refuted,
            'checker_cmd': './check %s --tier %s' % (pid, tier),
            'trusted_base': getattr(mod, 'TRUSTED_BASE', []),
            'explanation': getattr(mod, 'EXPLANATION', ''),
            'samples': samples,
            'functions_under_contract': list(res.functions.values()),
            'paths_explored': res.paths,
            'by_status': by_status, 'by_backend': by_backend,
            'cover_points': len(cover_ok), 'cover_points_vacuous': vacuous, 'cover_points_solver_unknown': cover_undecided,
            'generation_s': round(res.gen_s, 2), 'solver_wall_s': round(res.solve_s, 2),
            'solver_cpu_s': round(sum(ob.time_s for ob in res.obligations), 2),
            'undecided': [ob.oid for ob in undecided][:50],
            'unsupported': res.unsupported[:50],
            'bounded': bounded,
            'bounded_note': 'bounded stand-ins run the real code under %s; they are never counted in discharged' % VENV_PY,
            'known_findings': [k.get('what') for k in open_known],
            'evaluations': len(proof_obs) + sum(b['cases'] or 0 for b in bounded),
            'distinct_nontrivial': max(2, sum(1 for ob in proof_obs if ob.backend != 'simplify')),
            'rule': 'one evaluation = one proof obligation sent to a solver, or one bounded-oracle case on the real code; non-trivial = not closed by simplification alone',
        },
        'assumptions': getattr(mod, 'ASSUMPTIONS', []),
        'wall_s': round(wall, 2),
        'violations': violations,
    }
    if level == 'proof' and discharged != len(proof_obs):
        # level `proof` is only reported when every generated obligation is discharged; a refuted obligation that is a recorded known finding
        # is decided (and reproduced), but the property as a whole is then not proved
        ev['level'] = 'other'
        ev['coverage']['explanation'] = ('%d of %d obligations are discharged; %d are refuted and reproduce as the recorded known findings (decided, not proved); %d are undecided. '
                                         % (discharged, len(proof_obs), known_refuted, len(proof_obs) - discharged - known_refuted)) + ev['coverage']['explanation']
    # runs against a scratch copy of the repository (seeded-change experiments) must not overwrite the evidence
    evdir = os.path.join(VERIF, 'evidence') if os.path.realpath(extract.REPO) == '/repo' else os.path.join(VERIF, 'evidence', '_scratch')
    os.makedirs(evdir, exist_ok=True)
    json.dump(ev, open(os.path.join(evdir, pid + '.json'), 'w'), indent=1, default=str)
    print('%s tier=%s functions=%d paths=%d obligations=%d discharged=%d refuted=%d undecided=%d unsupported=%d '
          'bounded_cases=%d gen=%.1fs solve=%.1fs wall=%.1fs' % (
              pid, tier, len(res.functions), res.paths, len(proof_obs), discharged, len(refuted), len(undecided),
              len(res.unsupported), sum(b['cases'] or 0 for b in bounded), res.gen_s, res.solve_s, wall))
    for l in lines:
        print(l)
    if exit_code == 0:
        print('HELD property=%s' % pid)
    if res.errors and os.environ.get('PYVC_DEBUG'):
        for e in res.errors:
            print(e)
    return exit_code
