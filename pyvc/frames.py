"""Structural (syntactic) checker for frame clauses: `assigns S`, `calls T`, fresh-state clauses.

Decided conservatively over the same AST the symbolic executor runs; anything the rules cannot
classify makes the clause UNDECIDED (never discharged).  Back end name in the evidence: `syntactic`.

Name classification inside one function (flow-insensitive, so conservative):
  fresh   - every binding of the name is a display, comprehension, constant, f-string, a constructor /
            call listed as `returns_fresh`, `.copy()`, `list()/dict()/set()/tuple()/sorted()/str()`, or
            an arithmetic/comparison expression (immutable result)
  param   - a parameter, or bound from an expression that may alias one (attribute/subscript/iteration
            element of a non-fresh value, a bare name, a call not listed as returning fresh)
A store  x.a = / x[k] = / del / augmented assignment through x, or a call of a mutating method on x, is
allowed iff root(x) is fresh or root(x) (with its access path) is in the `assigns` set.
"""
import ast

MUTATORS = {'append', 'extend', 'insert', 'add', 'update', 'pop', 'remove', 'clear', 'setdefault',
            'sort', 'discard', 'popitem', 'reverse', 'write', 'writelines', 'appendleft', '__setitem__',
            '__delitem__', 'move_to_end'}
FRESH_CALLS = {'list', 'dict', 'set', 'tuple', 'sorted', 'str', 'int', 'float', 'bool', 'len', 'sum', 'min', 'max',
               'abs', 'round', 'frozenset', 'repr', 'defaultdict', 'range', 'enumerate', 'zip', 'any', 'all',
               'isinstance', 'hasattr', 'type', 'reversed', 'map', 'filter'}


class Clause:
    def __init__(self, cid, ok, detail='', kind='property', where=''):
        self.cid = cid
        self.ok = ok              # True discharged / False refuted / None undecided
        self.detail = detail
        self.kind = kind
        self.where = where


def path_of(n):
    if isinstance(n, ast.Name):
        return n.id
    if isinstance(n, ast.Attribute):
        p = path_of(n.value)
        return None if p is None else p + '.' + n.attr
    if isinstance(n, ast.Subscript):
        p = path_of(n.value)
        return None if p is None else p + '[]'
    if isinstance(n, ast.Call):
        # x.get(k) / x.values() style access still aliases x
        if isinstance(n.func, ast.Attribute) and n.func.attr in ('get', 'values', 'items', 'keys', 'setdefault'):
            p = path_of(n.func.value)
            return None if p is None else p + '[]'
    return None


def root_of(path):
    for i, ch in enumerate(path):
        if ch in '.[':
            return path[:i]
    return path


def is_fresh_expr(e, fresh_calls):
    if isinstance(e, (ast.List, ast.Dict, ast.Set, ast.Tuple, ast.ListComp, ast.SetComp, ast.DictComp,
                      ast.Constant, ast.JoinedStr, ast.BinOp, ast.Compare, ast.BoolOp, ast.UnaryOp, ast.Lambda,
                      ast.GeneratorExp)):
        if isinstance(e, ast.BoolOp):
            return all(is_fresh_expr(v, fresh_calls) for v in e.values)   # `a or {}` may alias a
        return True
    if isinstance(e, ast.IfExp):
        return is_fresh_expr(e.body, fresh_calls) and is_fresh_expr(e.orelse, fresh_calls)
    if isinstance(e, ast.Call):
        f = e.func
        if isinstance(f, ast.Name) and (f.id in FRESH_CALLS or f.id in fresh_calls):
            return True
        if isinstance(f, ast.Attribute):
            if f.attr in ('copy', 'lower', 'upper', 'strip', 'split', 'join', 'replace', 'format', 'strftime',
                          'startswith', 'endswith', 'title', 'isoformat', 'groups', 'group', 'search', 'match',
                          'findall', 'sub', 'count', 'read', 'read_text', 'deepcopy', 'lstrip', 'rstrip'):
                # .match / .search of a regular expression build a new Match object; MerchantEngine.match (receiver `self` or `..engine..`) returns a
                # result that may hold values taken from its arguments (a field: evaluating to a supplemental row): not fresh
                if f.attr in ('match', 'search') and (ast.unparse(f.value) == 'self' or 'engine' in ast.unparse(f.value).lower()):
                    return False
                return True
            if ast.unparse(f) in fresh_calls or f.attr in fresh_calls:
                return True
    return False


def bindings(fn):
    """name -> list of value expressions it is bound from (None = unknown/alias binding)."""
    out = {}

    def bind(t, v):
        if isinstance(t, ast.Name):
            out.setdefault(t.id, []).append(v)
        elif isinstance(t, (ast.Tuple, ast.List)):
            for e in t.elts:
                bind(e, ('elem', v))
        elif isinstance(t, ast.Starred):
            bind(t.value, ('elem', v))
    for n in ast.walk(fn):
        if isinstance(n, ast.Assign):
            for t in n.targets:
                bind(t, n.value)
        elif isinstance(n, ast.AnnAssign) and n.value is not None:
            bind(n.target, n.value)
        elif isinstance(n, ast.AugAssign):
            bind(n.target, n.value)
        elif isinstance(n, (ast.For, ast.comprehension)):
            bind(n.target, ('elem', n.iter))
        elif isinstance(n, ast.NamedExpr):
            bind(n.target, n.value)
        elif isinstance(n, ast.With):
            for it in n.items:
                if it.optional_vars is not None:
                    bind(it.optional_vars, it.context_expr)
        elif isinstance(n, ast.ExceptHandler) and n.name:
            out.setdefault(n.name, []).append(ast.Constant(0))
    return out


def classify(fn, fresh_calls):
    """name -> ('fresh', None) | ('alias', set of root paths it may alias)."""
    params = [a.arg for a in fn.args.posonlyargs + fn.args.args + fn.args.kwonlyargs]
    if fn.args.vararg:
        params.append(fn.args.vararg.arg)
    if fn.args.kwarg:
        params.append(fn.args.kwarg.arg)
    b = bindings(fn)
    cls = {p: ('alias', {p}) for p in params}
    changed = True
    names = set(b) | set(params)
    for nme in names:
        cls.setdefault(nme, ('fresh', None))

    def aliases_of_expr(e):
        """set of paths the value of e may alias; empty set = fresh."""
        if isinstance(e, tuple) and e[0] == 'elem':
            inner = e[1]
            if isinstance(inner, tuple) or inner is None:
                a = aliases_of_expr(inner)
            else:
                # element of a fresh container built from aliases is still an alias of those
                a = aliases_of_iter(inner)
            return {p + '[]' for p in a}
        if e is None:
            return {'<unknown>'}
        if is_fresh_expr(e, fresh_calls):
            if isinstance(e, (ast.Tuple, ast.List)):
                s = set()
                for x in e.elts:
                    s |= aliases_of_expr(x)
                return s
            return set()
        if isinstance(e, ast.Name):
            c = cls.get(e.id)
            if c is None:
                return {e.id}      # global / module name
            return set() if c[0] == 'fresh' else set(c[1])
        if isinstance(e, (ast.Attribute, ast.Subscript)):
            base = aliases_of_expr(e.value)
            suffix = '.' + e.attr if isinstance(e, ast.Attribute) else '[]'
            return {p + suffix for p in base}
        if isinstance(e, ast.IfExp):
            return aliases_of_expr(e.body) | aliases_of_expr(e.orelse)
        if isinstance(e, ast.BoolOp):
            s = set()
            for v in e.values:
                s |= aliases_of_expr(v)
            return s
        if isinstance(e, ast.Call):
            p = path_of(e)
            if p is not None:
                r = root_of(p)
                c = cls.get(r)
                if c is not None and c[0] == 'fresh':
                    return set()
                if c is not None:
                    return {x + p[len(r):] for x in c[1]}
                return {p}
            # unknown call: may return something reachable from any argument or the receiver
            s = set()
            if isinstance(e.func, ast.Attribute):
                s |= aliases_of_expr(e.func.value)
            for a in e.args:
                s |= aliases_of_expr(a)
            for k in e.keywords:
                s |= aliases_of_expr(k.value)
            return {x + '.<ret>' for x in s} if s else set()
        if isinstance(e, ast.Starred):
            return aliases_of_expr(e.value)
        if isinstance(e, ast.Await):
            return {'<unknown>'}
        return {'<unknown>'}

    def aliases_of_iter(e):
        if isinstance(e, ast.Call) and isinstance(e.func, ast.Name) and e.func.id in ('enumerate', 'zip', 'reversed', 'sorted', 'list'):
            s = set()
            for a in e.args:
                s |= aliases_of_expr(a)
            return s
        if isinstance(e, ast.Call) and isinstance(e.func, ast.Attribute) and e.func.attr in ('items', 'values', 'keys'):
            return aliases_of_expr(e.func.value)
        if isinstance(e, (ast.List, ast.Tuple)):
            s = set()
            for x in e.elts:
                s |= aliases_of_expr(x)
            return s
        return aliases_of_expr(e)

    for _ in range(12):
        changed = False
        for nme, vals in b.items():
            al = set()
            for v in vals:
                al |= aliases_of_expr(v)
            if nme in params:
                al |= {nme}
            new = ('fresh', None) if not al else ('alias', al)
            if cls.get(nme) != new:
                cls[nme] = new
                changed = True
        if not changed:
            break
    return cls, aliases_of_expr


def writes(fn):
    """(kind, receiver expr, node) for every in-place write in fn (nested defs excluded from `fn` itself
    are included: closures run with the same frame)."""
    out = []
    for n in ast.walk(fn):
        if isinstance(n, (ast.Assign, ast.AugAssign, ast.AnnAssign, ast.Delete)):
            targets = n.targets if isinstance(n, (ast.Assign, ast.Delete)) else [n.target]
            stack = list(targets)
            while stack:
                t = stack.pop()
                if isinstance(t, (ast.Tuple, ast.List)):
                    stack.extend(t.elts)
                elif isinstance(t, ast.Attribute):
                    out.append(('attr:' + t.attr, t.value, n))
                elif isinstance(t, ast.Subscript):
                    out.append(('item', t.value, n))
        elif isinstance(n, ast.Call) and isinstance(n.func, ast.Attribute) and n.func.attr in MUTATORS:
            out.append(('call:' + n.func.attr, n.func.value, n))
        elif isinstance(n, ast.Global):
            for g in n.names:
                out.append(('global:' + g, ast.Name(id=g, ctx=ast.Load()), n))
    return out


def check_assigns(fi, allowed, fresh_calls=(), cid=None, ignore_receivers=(), proof_state=()):
    """Clause `assigns allowed` for function fi.  allowed: set of path prefixes (e.g. 'self._scope',
    'transaction', '_expression_cache') the function may mutate.  Returns a list of Clause."""
    cid = cid or ('%s#assigns' % fi.qualname)
    cls, aliases_of_expr = classify(fi.node, set(fresh_calls))
    out = []
    bad = []
    aux = []        # writes into state whose invariant is proved per writer (proof_state): a new writer leaves the proof open, it does not refute the frame
    for kind, recv, node in writes(fi.node):
        if kind.startswith('global:'):
            g = kind.split(':', 1)[1]
            if not any(g == a or a.startswith(g) for a in allowed):
                bad.append('line %d: declares global %s' % (node.lineno, g))
            continue
        al = aliases_of_expr(recv)
        if kind.startswith('attr:'):
            al = {p + '.' + kind[5:] for p in al} if al else set()
        for p in al:
            if any(p == a or p.startswith(a + '.') or p.startswith(a + '[') for a in allowed):
                continue
            if any(p.startswith(x) for x in ignore_receivers):
                continue
            if any(p == x or p.startswith(x + '.') or p.startswith(x + '[') for x in proof_state):
                aux.append('line %d: %s through `%s` writes %s, whose representation invariant has no contract for this writer' % (node.lineno, kind, ast.unparse(recv), p))
                continue
            bad.append('line %d: %s through `%s` may write %s' % (node.lineno, kind, ast.unparse(recv), p))
    if aux:
        out.append(Clause(cid + '.invariant_state', False, '; '.join(aux[:6]), kind='auxiliary', where='%s:%d' % (fi.file, fi.lines[0])))
    if bad:
        out.append(Clause(cid, False, '; '.join(bad[:6]), where='%s:%d' % (fi.file, fi.lines[0])))
    else:
        out.append(Clause(cid, True, 'all %d in-place writes have fresh receivers or receivers within {%s}'
                          % (len(writes(fi.node)), ', '.join(sorted(allowed))), where='%s:%d' % (fi.file, fi.lines[0])))
    return out


def _is_fresh_value(v):
    """an expression that builds a new object on every evaluation: an empty/literal display, a comprehension, dict()/list()/set()/x.copy()"""
    if isinstance(v, (ast.Dict, ast.List, ast.Set, ast.ListComp, ast.DictComp, ast.SetComp)):
        return True
    if isinstance(v, ast.Call) and isinstance(v.func, ast.Name) and v.func.id in ('dict', 'list', 'set', 'defaultdict', 'OrderedDict'):
        return True
    if isinstance(v, ast.Call) and isinstance(v.func, ast.Attribute) and v.func.attr in ('copy', 'deepcopy') and not v.args:
        return True
    return False


def check_instance_state_fresh(clsnode, modname, fields, cid=None, fresh=()):
    """Every listed attribute is created per instance: __init__ assigns self.<f>, and the class body has no class-level attribute of that
    name.  Attributes listed in `fresh` (mutable state private to the instance) must in addition be assigned, at every assignment in the class,
    an object built on the spot - not a parameter (whose default value, or the caller's object, would be shared between instances)."""
    cid = cid or ('%s.%s#instance_state' % (modname, clsnode.name))
    class_level = set()
    init = None
    for n in clsnode.body:
        if isinstance(n, ast.Assign):
            for t in n.targets:
                if isinstance(t, ast.Name):
                    class_level.add(t.id)
        elif isinstance(n, ast.AnnAssign) and isinstance(n.target, ast.Name) and n.value is not None:
            class_level.add(n.target.id)
        elif isinstance(n, ast.FunctionDef) and n.name == '__init__':
            init = n
    bad = []
    for f in fields:
        if f in class_level:
            bad.append('%s is a class-level attribute (shared by all instances)' % f)
        assigned = False
        if init is not None:
            for n in ast.walk(init):
                if isinstance(n, (ast.Assign, ast.AnnAssign)):
                    targets = n.targets if isinstance(n, ast.Assign) else [n.target]
                    for t in targets:
                        if isinstance(t, ast.Attribute) and isinstance(t.value, ast.Name) and t.value.id == 'self' and t.attr == f:
                            assigned = True
        if not assigned:
            bad.append('%s is not assigned in __init__' % f)
        if f in fresh:
            for n in ast.walk(clsnode):
                if isinstance(n, (ast.Assign, ast.AnnAssign)):
                    targets = n.targets if isinstance(n, ast.Assign) else [n.target]
                    for t in targets:
                        if isinstance(t, ast.Attribute) and isinstance(t.value, ast.Name) and t.value.id == 'self' and t.attr == f \
                                and (n.value is None or not _is_fresh_value(n.value)):
                            bad.append('line %d: self.%s = %s is not an object built on the spot (it may be shared with other instances)'
                                       % (n.lineno, f, ast.unparse(n.value) if n.value is not None else '<none>'))
    for n in ast.walk(clsnode):
        if isinstance(n, ast.FunctionDef):
            for d in list(n.args.defaults) + [d for d in n.args.kw_defaults if d is not None]:
                if isinstance(d, (ast.Dict, ast.List, ast.Set)) or (isinstance(d, ast.Call) and isinstance(d.func, ast.Name) and d.func.id in ('dict', 'list', 'set')):
                    bad.append('line %d: %s has a mutable default argument (one object shared by every call)' % (n.lineno, n.name))
    return [Clause(cid, not bad, '; '.join(bad) if bad else 'fields %s are per-instance' % list(fields))]


def check_calls(fi, allowed_names, allowed_attrs, cid=None, forbidden=()):
    """Clause `calls T`: every Call in fi resolves to a name in allowed_names or a method name in allowed_attrs;
    reflective constructs are always refused."""
    cid = cid or ('%s#calls' % fi.qualname)
    always_forbidden = {'eval', 'exec', 'compile', '__import__', 'open', 'globals', 'locals', 'vars', 'setattr',
                        'delattr', 'input', 'breakpoint', 'memoryview'} | set(forbidden)
    bad, unknown = [], []
    for n in ast.walk(fi.node):
        if isinstance(n, ast.Call):
            f = n.func
            if isinstance(f, ast.Name):
                if f.id in always_forbidden or f.id in ('getattr', 'hasattr', 'type', 'super', 'object', 'classmethod', 'staticmethod'):
                    # reflective / escaping constructs refute the confinement clause itself
                    # (getattr & co. are accepted only where a caller has audited the pattern and put them in allowed_names)
                    if f.id not in allowed_names:
                        bad.append('line %d: call of %s' % (n.lineno, f.id))
                elif f.id not in allowed_names:
                    unknown.append('line %d: call of unlisted name %s' % (n.lineno, f.id))
            elif isinstance(f, ast.Attribute):
                if f.attr.startswith('__') or f.attr in ('system', 'popen', 'run', 'call', 'check_output', 'Popen', 'remove', 'unlink', 'rmtree', 'write',
                                                         'write_text', 'write_bytes', 'rename', 'replace_file', 'makedirs', 'mkdir', 'load_module', 'import_module'):
                    if f.attr not in allowed_attrs:
                        bad.append('line %d: call of method .%s' % (n.lineno, f.attr))
                elif f.attr not in allowed_attrs:
                    unknown.append('line %d: call of unlisted method .%s' % (n.lineno, f.attr))
            else:
                # call of a computed callee: allowed only for the audited dispatch patterns, handled by callers
                bad.append('line %d: call of computed callee `%s`' % (n.lineno, ast.unparse(f)[:60]))
        elif isinstance(n, (ast.Import, ast.ImportFrom)):
            mods = [a.name for a in n.names] if isinstance(n, ast.Import) else [n.module or '']
            for m in mods:
                if m.split('.')[0] not in ('difflib', 're', 'statistics', 'datetime', 'tally', 'ast', 'warnings', 'typing', 'types', 'math'):
                    bad.append('line %d: import of %s' % (n.lineno, m))
    # two clauses: an escaping construct refutes confinement (property); a callee that is merely not in the audited table leaves the proof
    # open (auxiliary: UNDECIDED unless the bounded stand-in shows an escape) - a new harmless library call is not reported as a violation
    return [Clause(cid, not bad, '; '.join(bad[:6]) if bad else 'no reflective / escaping construct is called'),
            Clause(cid + '.closed_table', not unknown, '; '.join(unknown[:6]) if unknown else 'all calls resolve inside the audited table', kind='auxiliary')]


# ---------------------------------------------------------------------------------------------------------------------------------------
# Frames across calls: what a callee writes through its parameters is written, at the call site, through the caller's arguments.

def _params(fn):
    ps = [a.arg for a in fn.args.posonlyargs + fn.args.args + fn.args.kwonlyargs]
    if fn.args.vararg:
        ps.append(fn.args.vararg.arg)
    if fn.args.kwarg:
        ps.append(fn.args.kwarg.arg)
    return ps


def direct_param_writes(fn, fresh_calls):
    """paths rooted at a parameter of fn that fn itself may write in place"""
    cls, aliases_of_expr = classify(fn, set(fresh_calls))
    params = set(_params(fn))
    out = set()
    for kind, recv, node in writes(fn):
        if kind.startswith('global:'):
            continue
        al = aliases_of_expr(recv)
        if kind.startswith('attr:'):
            al = {p + '.' + kind[5:] for p in al} if al else set()
        out |= {p for p in al if root_of(p) in params}
    return out


class PackageIndex:
    """functions and methods of the given modules, for resolving the callee of a Call node the way Python would in the simple cases:
    f(...) -> function f of the caller's module (or imported by name from another listed module); self.m(...) -> method m of the caller's class;
    alias.f(...) -> function f of the listed module imported under that alias; x.m(...) on any other receiver -> every method called m (union)."""

    def __init__(self, modules):
        self.mods = modules                     # modname -> extract.Module
        self.fn = {}                            # (modname, None, name) / (modname, cls, name) -> FunctionDef
        for mname, m in modules.items():
            for name, node in m.functions.items():
                self.fn[(mname, None, name)] = node
            for cname, cnode in m.classes.items():
                for n in cnode.body:
                    if isinstance(n, ast.FunctionDef):
                        self.fn[(mname, cname, n.name)] = n

    def resolve(self, call, mname, cname):
        """list of (key, binds_receiver_to_self) candidates"""
        f = call.func
        if isinstance(f, ast.Name):
            if (mname, None, f.id) in self.fn:
                return [((mname, None, f.id), False)]
            tgt = self.mods[mname].imports.get(f.id, '')
            for m2 in self.mods:
                if tgt == m2 + '.' + f.id and (m2, None, f.id) in self.fn:
                    return [((m2, None, f.id), False)]
            return []
        if isinstance(f, ast.Attribute):
            if isinstance(f.value, ast.Name) and f.value.id == 'self' and cname and (mname, cname, f.attr) in self.fn:
                return [((mname, cname, f.attr), True)]
            if isinstance(f.value, ast.Name) and f.value.id in self.mods[mname].imports:
                tgt = self.mods[mname].imports.get(f.value.id)       # the receiver is an imported module (or name): ast.parse, re.sub, expr_parser.evaluate
                if tgt in self.mods and (tgt, None, f.attr) in self.fn:
                    return [((tgt, None, f.attr), False)]
                return []
            if f.attr in MUTATORS:
                return []
            return [(k, True) for k in self.fn if k[1] is not None and k[2] == f.attr]
        return []


def _actuals(call, callee, binds_self):
    """formal parameter name -> list of actual argument expressions of this call (conservative for * and **)"""
    ps = [a.arg for a in callee.args.posonlyargs + callee.args.args]
    out = {}
    if binds_self and ps:
        out.setdefault(ps[0], []).append(call.func.value)
        ps = ps[1:]
    star = [a for a in call.args if isinstance(a, ast.Starred)] + [k.value for k in call.keywords if k.arg is None]
    pos = [a for a in call.args if not isinstance(a, ast.Starred)]
    for i, a in enumerate(pos):
        if i < len(ps):
            out.setdefault(ps[i], []).append(a)
        elif callee.args.vararg:
            out.setdefault(callee.args.vararg.arg, []).append(a)
    names = set(_params(callee))
    for k in call.keywords:
        if k.arg is not None:
            out.setdefault(k.arg if k.arg in names else (callee.args.kwarg.arg if callee.args.kwarg else k.arg), []).append(k.value)
    for s in star:
        for p in _params(callee):
            out.setdefault(p, []).append(s)
    return out


def callee_writes(index, fresh_calls):
    """key -> paths rooted at the function's own parameters that it may write, directly or through the functions it calls (least fixpoint)"""
    W = {k: direct_param_writes(n, fresh_calls) for k, n in index.fn.items()}
    info = {}
    for k, n in index.fn.items():
        cls, aliases_of_expr = classify(n, set(fresh_calls))
        calls = [c for c in ast.walk(n) if isinstance(c, ast.Call)]
        info[k] = (aliases_of_expr, calls, set(_params(n)))
    for _ in range(10):
        changed = False
        for k, n in index.fn.items():
            aliases_of_expr, calls, params = info[k]
            for c in calls:
                for k2, binds in index.resolve(c, k[0], k[1]):
                    if not W[k2]:
                        continue
                    act = _actuals(c, index.fn[k2], binds)
                    for path in list(W[k2]):
                        r = root_of(path)
                        for a in act.get(r, []):
                            for al in aliases_of_expr(a):
                                p = al + path[len(r):]
                                if root_of(p) in params and p not in W[k]:
                                    W[k].add(p)
                                    changed = True
        if not changed:
            break
    return W


def check_call_frames(fi, key, index, W, allowed, fresh_calls=(), cid=None, proof_state=()):
    """Clause: every call made by fi hands the callee only state the caller may itself write (or fresh state) in the positions the callee writes through."""
    cid = cid or ('%s#assigns_through_callees' % fi.qualname)
    cls, aliases_of_expr = classify(fi.node, set(fresh_calls))
    bad = []
    n_calls = 0
    for c in ast.walk(fi.node):
        if not isinstance(c, ast.Call):
            continue
        for k2, binds in index.resolve(c, key[0], key[1]):
            if not W.get(k2):
                continue
            n_calls += 1
            act = _actuals(c, index.fn[k2], binds)
            for path in sorted(W[k2]):
                r = root_of(path)
                for a in act.get(r, []):
                    for al in aliases_of_expr(a):
                        p = al + path[len(r):]
                        if any(p == x or p.startswith(x + '.') or p.startswith(x + '[') for x in list(allowed) + list(proof_state)):
                            continue
                        bad.append('line %d: %s(...) writes its parameter %s in place, and is handed `%s` (%s)' % (c.lineno, k2[2], path, ast.unparse(a)[:50], p))
    return [Clause(cid, not bad, '; '.join(bad[:6]) if bad else '%d calls of functions that write through a parameter: each is handed fresh state or state within {%s}'
                   % (n_calls, ', '.join(sorted(allowed))), where='%s:%d' % (fi.file, fi.lines[0]))]
