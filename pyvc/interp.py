"""Symbolic interpreter for the accepted Python subset, run directly on the AST of /repo's source.

Anything outside the subset raises Unsupported (=> UNDECIDED), it is never guessed.
Control flow uses Python exceptions (_Return/_Break/_Continue/PyRaise); symbolic branches go
through ctx.branch so that every path is explored by re-execution.
"""
import ast

import z3

from . import extract
from .core import Unsupported, PathEnd, Infeasible, Impure
from .values import (Obj, Rec, SymOpt, SymSeq, SymSet, SymMap, MapEntry, MapItems, Enumerated, Untracked, Func,
                     Closure, ClassRef, ModuleRef, Poison, UF, ObjS, StrS, IntS, RealS, BoolS, to_z3,
                     wrap, is_sym, seq_col, set_expr)


class _Return(Exception):
    def __init__(self, value):
        self.value = value


class _Break(Exception):
    pass


class _Continue(Exception):
    pass


class PyRaise(Exception):
    """A Python exception raised by the code under verification."""

    def __init__(self, cls, args=(), where=''):
        Exception.__init__(self, cls)
        self.cls = cls
        self.args_ = args
        self.where = where


BUILTIN_EXC = {
    'BaseException': None, 'Exception': 'BaseException', 'ArithmeticError': 'Exception',
    'ZeroDivisionError': 'ArithmeticError', 'OverflowError': 'ArithmeticError',
    'LookupError': 'Exception', 'KeyError': 'LookupError', 'IndexError': 'LookupError',
    'ValueError': 'Exception', 'TypeError': 'Exception', 'AttributeError': 'Exception',
    'NameError': 'Exception', 'UnboundLocalError': 'NameError', 'StopIteration': 'Exception',
    'OSError': 'Exception', 'IOError': 'OSError', 'FileNotFoundError': 'OSError',
    'PermissionError': 'OSError', 'RuntimeError': 'Exception', 'RecursionError': 'RuntimeError',
    'UnicodeDecodeError': 'ValueError', 'UnicodeError': 'ValueError', 'AssertionError': 'Exception',
    'KeyboardInterrupt': 'BaseException', 'SystemExit': 'BaseException',
    're.error': 'Exception', 'csv.Error': 'Exception', 'json.JSONDecodeError': 'ValueError',
    'NotImplementedError': 'RuntimeError', 'ImportError': 'Exception', 'MemoryError': 'Exception',
}

MUTATORS = {'append', 'extend', 'insert', 'add', 'update', 'pop', 'remove', 'clear', 'setdefault',
            'sort', 'discard', 'popitem', 'reverse', 'write', 'writelines', 'appendleft'}


def source_exception_table(modnames):
    """Exception classes declared in the given modules: name -> parent name."""
    table = {}
    for mn in modnames:
        try:
            mod = extract.module(mn)
        except extract.ExtractionError:
            continue
        for name, node in mod.classes.items():
            for b in node.bases:
                bn = ast.unparse(b)
                if bn in BUILTIN_EXC or bn in table or bn.endswith('Error') or bn == 'Exception':
                    table[name] = bn
    return table


class LoopSpec:
    """Contract of one loop (identified by ordinal inside its function).

    inv(I, env, k) -> ordered dict name -> z3 Bool   (k: z3 Int index for sequences,
                                                        z3 set `processed` for sets)
    havoc: dict path -> factory(ctx) building a fresh symbolic value of the declared shape
    """

    def __init__(self, inv, havoc, kind='auxiliary', unfold=None, name=None, pre=None, exit_facts=None):
        self.inv = inv
        self.havoc = havoc
        self.kind = kind
        self.unfold = unfold
        self.name = name
        self.pre = pre          # pre(I, env) -> snapshot stored in env['$pre'] before the havoc
        self.on_exit = None             # on_exit(kind, tag): ghost hook called when the body of an arbitrary iteration leaves the loop early ('break' | 'return' | 'raise')
        self.exit_facts = exit_facts    # exit_facts(I, env, k, it) -> proved lemma instances assumed when the body leaves the loop early (return / raise / break)


class Spec:
    """Everything the interpreter needs besides the source: callee models, loop contracts,
    field sorts, inlinable callees."""

    def __init__(self):
        self.models = {}        # dotted source text of callee -> Func
        self.loops = {}         # (qualname, ordinal) -> LoopSpec
        self.inline = set()     # qualified names of package functions that may be inlined
        self.field_sorts = {}   # (cls, field) -> z3 sort or ('seq', sort, cls) ...
        self.exc_table = dict(BUILTIN_EXC)
        self.globals = {}       # extra global names
        self.on_call = None
        self.abstract_comprehensions = set()   # (qualname, ordinal) whose value is Untracked
        self.truthy_classes = set()            # Obj class tags whose instances are always truthy (e.g. re.Match)
        self.stop = None                       # (qualname, lineno, callback(I, frame)): verify a prefix of a long function
        self.while_bound = {}                  # qualname -> unwinding bound for while loops with symbolic guards
        self.order_keys = {}                   # Obj class tag -> UF(Obj) -> Int giving a total order (e.g. dates by ordinal)


def assigned_and_mutated(body):
    """Syntactic frame of a loop body: names assigned, and access paths mutated in place."""
    names, paths = set(), set()

    def path_of(n):
        if isinstance(n, ast.Name):
            return n.id
        if isinstance(n, ast.Attribute):
            p = path_of(n.value)
            return None if p is None else p + '.' + n.attr
        if isinstance(n, ast.Subscript):
            return path_of(n.value)
        if isinstance(n, ast.Call) and isinstance(n.func, ast.Attribute) and n.func.attr in ('setdefault', 'get'):
            # d.setdefault(k, v).append(x) / d.get(k).append(x): a write into (an element of) d
            return path_of(n.func.value)
        return None

    def target(t):
        if isinstance(t, ast.Name):
            names.add(t.id)
        elif isinstance(t, (ast.Tuple, ast.List)):
            for e in t.elts:
                target(e)
        elif isinstance(t, ast.Starred):
            target(t.value)
        elif isinstance(t, (ast.Attribute, ast.Subscript)):
            p = path_of(t.value if isinstance(t, ast.Subscript) else t)
            paths.add(p if p is not None else '<complex>')

    for stmt in body:
        for n in ast.walk(stmt):
            if isinstance(n, ast.Assign):
                for t in n.targets:
                    target(t)
            elif isinstance(n, (ast.AugAssign, ast.AnnAssign)):
                target(n.target)
            elif isinstance(n, (ast.For, ast.comprehension)):
                if isinstance(n, ast.For):
                    target(n.target)
            elif isinstance(n, ast.NamedExpr):
                target(n.target)
            elif isinstance(n, ast.With):
                for it in n.items:
                    if it.optional_vars is not None:
                        target(it.optional_vars)
            elif isinstance(n, ast.ExceptHandler) and n.name:
                names.add(n.name)
            elif isinstance(n, (ast.Import, ast.ImportFrom)):
                for a in n.names:
                    names.add((a.asname or a.name).split('.')[0])
            elif isinstance(n, ast.Delete):
                for t in n.targets:
                    target(t)
            elif isinstance(n, ast.Call) and isinstance(n.func, ast.Attribute) and n.func.attr in MUTATORS:
                p = path_of(n.func.value)
                paths.add(p if p is not None else '<complex>')
    return names, paths


class _AliasEnv(dict):
    """local environment in which a contract's name for a renamed local resolves to the local's current name"""

    def __init__(self, base):
        dict.__init__(self, base)
        self.alias = {}

    def __missing__(self, k):
        if k in self.alias:
            return dict.__getitem__(self, self.alias[k])
        raise KeyError(k)

    def __contains__(self, k):
        return dict.__contains__(self, k) or (k in self.alias and dict.__contains__(self, self.alias[k]))

    def get(self, k, default=None):
        if dict.__contains__(self, k):
            return dict.__getitem__(self, k)
        if k in self.alias:
            return dict.get(self, self.alias[k], default)
        return default


class Frame:
    def __init__(self, fi, env):
        self.fi = fi
        self.env = env
        self.loop_ordinals = {}
        n = 0
        for node in ast.walk(fi.node):
            pass
        # ordinals in source order (pre-order over statements and comprehensions)
        order = []

        def visit(nd):
            for ch in ast.iter_child_nodes(nd):
                if isinstance(ch, (ast.FunctionDef, ast.Lambda, ast.ClassDef)) and ch is not fi.node:
                    continue
                if isinstance(ch, (ast.For, ast.While, ast.ListComp, ast.SetComp, ast.DictComp,
                                   ast.GeneratorExp)):
                    order.append(ch)
                visit(ch)
        visit(fi.node)
        order.sort(key=lambda x: (x.lineno, x.col_offset))
        for i, nd in enumerate(order):
            self.loop_ordinals[id(nd)] = i


class _OpaqueSeq:
    """an untracked iterable inside a cut loop: unknown length, untracked elements"""

    def __init__(self, n):
        self.n = n

    def length(self):
        return self.n

    def elem(self, k):
        return Untracked()


class Interp:
    def __init__(self, ctx, spec):
        self.ctx = ctx
        self.spec = spec
        self.depth = 0
        self.frames = []

    # ------------------------------------------------------------------ helpers
    def fresh(self, name, sort):
        return self.ctx.fresh(name, sort)

    def fresh_obj(self, name, cls=None):
        return Obj(self.ctx.fresh(name, ObjS), cls)

    def is_subclass(self, c, parent):
        seen = 0
        while c is not None and seen < 20:
            if c == parent:
                return True
            c = self.spec.exc_table.get(c)
            seen += 1
        return False

    def truthy(self, v):
        """Python truthiness as a Python bool or z3 Bool."""
        if isinstance(v, Poison):
            raise Unsupported('read of loop-havocked local %s' % v.name)
        if v is None:
            return False
        if isinstance(v, Untracked):
            return self.ctx.fresh('nondet', BoolS)
        if isinstance(v, (bool, int, float, str, tuple, list, dict, set, frozenset)):
            return bool(v)
        if isinstance(v, z3.ExprRef):
            s = v.sort()
            if s == BoolS:
                return v
            if s == IntS or s == RealS:
                return v != 0
            if s == StrS:
                return z3.Length(v) > 0
            if z3.is_seq(v):
                return z3.Length(v) > 0
            raise Unsupported('truthiness of sort %s' % s)
        if isinstance(v, Obj) and v.cls in ('pyany', 'pydict'):
            return self.ctx.fresh('nondet', BoolS)
        if isinstance(v, Obj) and v.cls in self.spec.truthy_classes:
            return True
        if isinstance(v, Obj):
            return UF('truthy', ObjS, BoolS)(v.expr)
        if isinstance(v, SymOpt):
            inner = self.truthy(v.value)
            if inner is True:
                return v.is_some
            return z3.And(v.is_some, to_z3(inner))
        if isinstance(v, SymSeq):
            return v.length() > 0
        if isinstance(v, SymSet):
            if v.expr is None:
                return False
            return v.expr != z3.EmptySet(v.expr.sort().domain())
        if isinstance(v, (Rec, Func, Closure, ClassRef)):
            return True
        if isinstance(v, SymMap):
            if v.dom is None:
                return False
            return v.dom != z3.EmptySet(v.ksort)
        raise Unsupported('truthiness of %r' % (v,))

    def is_none(self, v):
        if isinstance(v, Poison):
            raise Unsupported('read of loop-havocked local %s' % v.name)
        if v is None:
            return True
        if isinstance(v, Untracked):
            return self.ctx.fresh('nondet', BoolS)
        if isinstance(v, SymOpt):
            return z3.Not(v.is_some)
        if isinstance(v, Obj) and v.cls == 'pydict':
            return False
        if isinstance(v, Obj) and v.cls == 'pyany':
            return self.ctx.fresh('nondet', BoolS)
        if isinstance(v, Obj):
            return UF('is_none', ObjS, BoolS)(v.expr)
        return False

    def eq(self, a, b):
        """Python == as Python bool / z3 Bool."""
        for x in (a, b):
            if isinstance(x, Poison):
                raise Unsupported('read of loop-havocked local %s' % x.name)
        if isinstance(a, Untracked) or isinstance(b, Untracked):
            return Untracked()
        if self.is_pyany(a) or self.is_pyany(b):
            return self.ctx.fresh('nondet', BoolS)
        if a is None or b is None:
            other = b if a is None else a
            r = self.is_none(other)
            return r
        if isinstance(a, SymOpt) or isinstance(b, SymOpt):
            raise Unsupported('== on Optional')
        if isinstance(a, Obj) and isinstance(b, Obj) and a.cls == b.cls and a.cls in self.spec.order_keys:
            key = self.spec.order_keys[a.cls]
            return key(a.expr) == key(b.expr)
        if isinstance(a, tuple) and isinstance(b, tuple):
            if len(a) != len(b):
                return False
            parts = [self.eq(x, y) for x, y in zip(a, b)]
            if all(isinstance(p, bool) for p in parts):
                return all(parts)
            return z3.And(*[to_z3(p) for p in parts])
        if not is_sym(a) and not is_sym(b) and not isinstance(a, (Obj, SymSeq, SymSet)) \
                and not isinstance(b, (Obj, SymSeq, SymSet)):
            if isinstance(a, (int, float, str, bool, tuple)) and isinstance(b, (int, float, str, bool, tuple)):
                return a == b
            raise Unsupported('== on %r, %r' % (a, b))
        if isinstance(a, (SymSet, set, frozenset)) or isinstance(b, (SymSet, set, frozenset)):
            sa = a if isinstance(a, SymSet) else b
            if sa.expr is None:
                raise Unsupported('== on empty set of unknown sort')
            sort = sa.expr.sort().domain()
            return set_expr(a, sort) == set_expr(b, sort)
        za, zb = self._coerce_pair(a, b)
        if za.sort() != zb.sort():
            return False
        return za == zb

    def _coerce_pair(self, a, b):
        za = to_z3(a) if not isinstance(a, (list,)) else a
        zb = to_z3(b) if not isinstance(b, (list,)) else b
        if isinstance(za, list):
            za = to_z3(za, zb.sort())
        if isinstance(zb, list):
            zb = to_z3(zb, za.sort())
        if za.sort() == IntS and zb.sort() == RealS:
            za = z3.ToReal(za)
        elif za.sort() == RealS and zb.sort() == IntS:
            zb = z3.ToReal(zb)
        elif za.sort() == BoolS and zb.sort() in (IntS, RealS):
            za = to_z3(z3.If(za, 1, 0), zb.sort())
        elif zb.sort() == BoolS and za.sort() in (IntS, RealS):
            zb = to_z3(z3.If(zb, 1, 0), za.sort())
        return za, zb

    OPAQUE_ERRORS = ['TypeError', 'AttributeError', 'KeyError', 'IndexError', 'ValueError']

    def is_pyany(self, v):
        return isinstance(v, Obj) and v.cls == 'pyany'

    def is_pydict(self, v):
        return isinstance(v, Obj) and v.cls == 'pydict'

    def pyany_op(self, label, node=None, classes=None):
        """An operation on a value of unknown dynamic type: may raise any of the operator/lookup errors, or
        yields another value of unknown type (used for raises-clauses; sound over-approximation)."""
        classes = classes or self.OPAQUE_ERRORS
        k = self.ctx.choose(len(classes) + 1, 'pyany.%s' % label)
        if k:
            raise PyRaise(classes[k - 1], (), where='line %s' % getattr(node, 'lineno', '?'))
        return Obj(self.ctx.fresh('any', ObjS), 'pyany')

    def neg(self, r):
        if isinstance(r, Untracked):
            return r
        return (not r) if isinstance(r, bool) else z3.Not(r)

    def raise_py(self, cls, node=None):
        raise PyRaise(cls, (), where='line %s' % getattr(node, 'lineno', '?'))

    # ------------------------------------------------------------------ calling
    def call_function(self, fi, args, kwargs=None, self_obj=None, closure_env=None):
        kwargs = dict(kwargs or {})
        node = fi.node
        env = dict(closure_env or {})
        params = list(node.args.posonlyargs) + list(node.args.args)
        pos = list(args)
        if self_obj is not None:
            pos = [self_obj] + pos
        if len(pos) > len(params) and node.args.vararg is None:
            self.raise_py('TypeError', node)
        defaults = node.args.defaults
        first_default = len(params) - len(defaults)
        for i, p in enumerate(params):
            if i < len(pos):
                env[p.arg] = pos[i]
            elif p.arg in kwargs:
                env[p.arg] = kwargs.pop(p.arg)
            elif i >= first_default:
                env[p.arg] = self.eval_in(defaults[i - first_default], fi, {})
            else:
                self.raise_py('TypeError', node)
        if node.args.vararg is not None:
            env[node.args.vararg.arg] = tuple(pos[len(params):])
        for p, d in zip(node.args.kwonlyargs, node.args.kw_defaults):
            if p.arg in kwargs:
                env[p.arg] = kwargs.pop(p.arg)
            elif d is not None:
                env[p.arg] = self.eval_in(d, fi, {})
            else:
                self.raise_py('TypeError', node)
        if kwargs:
            if node.args.kwarg is not None:
                env[node.args.kwarg.arg] = kwargs
            else:
                self.raise_py('TypeError', node)
        frame = Frame(fi, env)
        self.frames.append(frame)
        self.depth += 1
        if self.depth > 40:
            raise Unsupported('call depth')
        try:
            self.exec_block(node.body, frame)
            return None
        except _Return as r:
            return r.value
        finally:
            self.depth -= 1
            self.frames.pop()

    def eval_in(self, node, fi, env):
        fr = Frame(fi, env)
        return self.eval(node, fr)

    # ------------------------------------------------------------------ statements
    def exec_block(self, stmts, fr):
        for i, s in enumerate(stmts):
            if i == 0 and isinstance(s, ast.Expr) and isinstance(s.value, ast.Constant) \
                    and isinstance(s.value.value, str):
                continue   # docstring (dropped by extraction)
            self.exec_stmt(s, fr)

    def exec_stmt(self, s, fr):
        st = self.spec.stop
        if st is not None and fr.fi.qualname == st[0] and s.lineno >= st[1] and fr is self.frames[0]:
            st[2](self, fr)
            raise PathEnd()
        m = getattr(self, 'st_' + type(s).__name__, None)
        if m is None:
            raise Unsupported('statement %s at %s:%d' % (type(s).__name__, fr.fi.file, s.lineno))
        return m(s, fr)

    def st_Pass(self, s, fr):
        pass

    def st_Expr(self, s, fr):
        self.eval(s.value, fr)

    def st_Return(self, s, fr):
        raise _Return(self.eval(s.value, fr) if s.value is not None else None)

    def st_Break(self, s, fr):
        raise _Break()

    def st_Continue(self, s, fr):
        raise _Continue()

    def st_Global(self, s, fr):
        # module globals live in spec.globals (the contract declares which ones are modelled)
        for nme in s.names:
            if nme not in self.spec.globals:
                # a module global the contract does not track: abstracted (reads are nondeterministic)
                self.spec.globals[nme] = Untracked()
            fr.global_names = getattr(fr, 'global_names', set()) | {nme}

    def st_Import(self, s, fr):
        for a in s.names:
            fr.env[(a.asname or a.name).split('.')[0]] = ModuleRef(a.name)

    def st_ImportFrom(self, s, fr):
        base = s.module or ''
        if s.level:
            pkg = fr.fi.mod.name.split('.')
            base = '.'.join(pkg[:len(pkg) - s.level] + ([base] if base else []))
        for a in s.names:
            fr.env[a.asname or a.name] = self.resolve_dotted(base + '.' + a.name)

    def st_FunctionDef(self, s, fr):
        fi = extract.FunctionInfo(fr.fi.qualname + '.<locals>.' + s.name, fr.fi.mod, s, None)
        fr.env[s.name] = Closure(s, fr.env, fi)

    def st_Assign(self, s, fr):
        v = self.eval(s.value, fr)
        for t in s.targets:
            self.assign(t, v, fr)

    def st_AnnAssign(self, s, fr):
        if s.value is not None:
            self.assign(s.target, self.eval(s.value, fr), fr)

    def st_AugAssign(self, s, fr):
        cur = self.eval(self._as_load(s.target), fr)
        v = self.binop(s.op, cur, self.eval(s.value, fr), s)
        self.assign(s.target, v, fr)

    @staticmethod
    def _as_load(t):
        import copy
        t2 = copy.copy(t)
        t2.ctx = ast.Load()
        return t2

    def assign(self, t, v, fr):
        if isinstance(t, ast.Name):
            if t.id in getattr(fr, 'global_names', ()):
                self.spec.globals[t.id] = v
            else:
                fr.env[t.id] = v
        elif isinstance(t, (ast.Tuple, ast.List)):
            vals = self.unpack(v, len(t.elts), t)
            for e, x in zip(t.elts, vals):
                self.assign(e, x, fr)
        elif isinstance(t, ast.Attribute):
            o = self.eval(t.value, fr)
            if isinstance(o, Rec):
                o.fields[t.attr] = v
            else:
                raise Unsupported('attribute store on %r' % (o,))
        elif isinstance(t, ast.Subscript):
            o = self.eval(t.value, fr)
            k = self.eval(t.slice, fr)
            self.setitem(o, k, v, t)
        else:
            raise Unsupported('assignment target %s' % type(t).__name__)

    def unpack(self, v, n, node):
        if isinstance(v, Poison):
            raise Unsupported('read of loop-havocked local %s' % v.name)
        if isinstance(v, SymOpt):
            self.ctx.check('safety.unpack_not_none@%d' % node.lineno, v.is_some, 'safety')
            self.ctx.assume(v.is_some)
            v = v.value
        if isinstance(v, (tuple, list)):
            if len(v) != n:
                self.raise_py('ValueError', node)
            return list(v)
        if isinstance(v, Untracked):
            return [Untracked() for _ in range(n)]          # an untracked value taken apart: untracked parts (a wrong length is a ValueError the contract does not see)
        raise Unsupported('unpack of %r' % (v,))

    def setitem(self, o, k, v, node):
        if isinstance(o, dict):
            if is_sym(k) or isinstance(k, Obj):
                # store through a symbolic key: one path per existing key it can be equal to (a store that creates a new key is outside the subset)
                for key in list(o):
                    c = self.eq(k, key)
                    if c is False:
                        continue
                    if c is True or self.ctx.branch(to_z3(c), 'dictstore@%d' % getattr(node, 'lineno', 0)):
                        o[key] = v
                        return
                raise Unsupported('store into a concrete dict through a symbolic key that matches no existing key')
            o[k] = v
        elif isinstance(o, list):
            if not isinstance(k, int):
                raise Unsupported('symbolic index store')
            o[k] = v
        elif isinstance(o, SymMap):
            self.map_store(o, k, None, v)
        elif isinstance(o, MapEntry):
            if not isinstance(k, str):
                raise Unsupported('record field must be constant')
            self.map_store(o.m, o.key, k, v)
        elif isinstance(o, Obj) and ('setitem', o.cls) in self.spec.field_sorts:
            self.spec.field_sorts[('setitem', o.cls)](self, o, k, v, node)
        elif isinstance(o, Untracked) or self.is_pydict(o):
            pass   # write into abstracted (untracked) state
        elif self.is_pyany(o):
            self.pyany_op('setitem', node)
        else:
            if o is None:
                self.raise_py('TypeError', node)          # CPython: 'NoneType' object does not support item assignment
            raise Unsupported('subscript store on %r' % (o,))

    # maps ----------------------------------------------------------------
    def map_key(self, m, key):
        if isinstance(key, (Untracked, Poison)):
            raise Unsupported('untracked/havocked value used as a map key')
        zk = to_z3(key, m.ksort) if m.ksort is not None else to_z3(key)
        m.ensure_sort(zk)
        return zk

    def map_store(self, m, key, field, v):
        zk = self.map_key(m, key)
        if field not in m.fields:
            # a key the factory did not create, or an untracked one: abstracted
            m.untracked.add(field)
            m.dom = z3.SetAdd(m.dom, zk)
            return
        if isinstance(v, Untracked):
            raise Unsupported('untracked value stored into tracked map field %r' % (field,))
        if v is None and getattr(m, 'may_hold_none', None) is not None and field in m.fields:
            # None stored as a value into a dict that may hold None: some value that IS None
            arr = m.fields[field]
            w = self.ctx.fresh('none_value', arr.range())
            self.ctx.assume(m.may_hold_none(w))
            m.fields[field] = z3.Store(arr, zk, w)
            m.dom = z3.SetAdd(m.dom, zk)
            return
        if isinstance(v, SymOpt) and getattr(m, 'may_hold_none', None) is not None:
            # a dict that may hold None values: the Optional is stored as the value it stands for - its own value, or a value that IS None
            self.ctx.check('stored_optional_is_present_or_a_none_value', z3.Or(v.is_some, m.may_hold_none(to_z3(v.value))), 'auxiliary')
            v = v.value
        elif isinstance(v, SymOpt):
            # an Optional stored into a tracked map: it must be present on this path (None values are not tracked)
            self.ctx.check('stored_optional_is_present', v.is_some, 'auxiliary')
            v = v.value
        arr = m.fields[field]
        new = to_z3(v, arr.range())
        old = z3.Select(arr, zk)
        m.fields[field] = z3.Store(arr, zk, new)
        m.dom = z3.SetAdd(m.dom, zk)
        if arr.range() == RealS:
            # trusted axiom (finite-support sums): MapSum(Store(a,x,v)) = MapSum(a) + (v - a[x])
            MS = UF('MapSum[%s]' % arr.sort(), arr.sort(), RealS)
            self.ctx.assume(MS(m.fields[field]) == MS(arr) + (new - old))

    def map_load(self, m, key, field):
        zk = self.map_key(m, key)
        if field not in m.fields:
            return Untracked()
        return wrap(z3.Select(m.fields[field], zk), getattr(m, 'value_cls', None))

    def _simple_block(self, stmts):
        for st in stmts:
            if isinstance(st, ast.Pass):
                continue
            if isinstance(st, ast.If):
                if not (self._simple_block(st.body) and self._simple_block(st.orelse)):
                    return False
                continue
            if isinstance(st, ast.Assign) and all(isinstance(t, ast.Name) for t in st.targets):
                continue
            if isinstance(st, ast.AugAssign) and isinstance(st.target, ast.Name):
                continue
            return False
        return True

    def st_If(self, s, fr):
        c = self.truthy(self.eval(s.test, fr))
        if not isinstance(c, bool) and not self.ctx.pure and self._simple_block(s.body) and self._simple_block(s.orelse) \
                and not getattr(fr, 'global_names', None):
            envs = []
            for cond, block in ((c, s.body), (z3.Not(c), s.orelse)):
                f2 = Frame.__new__(Frame)
                f2.__dict__.update(fr.__dict__)
                f2.env = dict(fr.env)
                ok, _ = self.speculate(cond, lambda: self.exec_block(block, f2))
                if not ok:
                    envs = None
                    break
                envs.append(f2.env)
            if envs is not None:
                merged = {}
                good = True
                for nme in set(envs[0]) | set(envs[1]):
                    if nme not in envs[0] or nme not in envs[1]:
                        good = False
                        break
                    m = self.merge_values(c, envs[0][nme], envs[1][nme])
                    if m is _MISSING:
                        good = False
                        break
                    merged[nme] = m
                if good:
                    fr.env.clear()
                    fr.env.update(merged)
                    return
        if self.ctx.branch(c, 'if@%d' % s.lineno):
            self.exec_block(s.body, fr)
        else:
            self.exec_block(s.orelse, fr)

    def st_Raise(self, s, fr):
        if s.exc is None:
            cur = getattr(fr, 'handling', None)
            if cur is None:
                raise Unsupported('bare raise outside handler')
            raise cur
        e = s.exc
        if isinstance(e, ast.Call):
            name = ast.unparse(e.func)
            args = [self.eval(a, fr) for a in e.args]
        else:
            name = ast.unparse(e)
            args = []
        name = name.split('.')[-1] if name.split('.')[-1] in self.spec.exc_table else name
        if name not in self.spec.exc_table:
            v = fr.env.get(name)
            if isinstance(v, PyRaise):
                raise v
            raise Unsupported('raise of unknown exception %s' % name)
        raise PyRaise(name, tuple(args), where='%s:%d' % (fr.fi.file, s.lineno))

    def st_Try(self, s, fr):
        try:
            try:
                self.exec_block(s.body, fr)
            except PyRaise as e:
                for h in s.handlers:
                    if self.handler_matches(h, e, fr):
                        if h.name:
                            fr.env[h.name] = e
                        old = getattr(fr, 'handling', None)
                        fr.handling = e
                        try:
                            self.exec_block(h.body, fr)
                        finally:
                            fr.handling = old
                        break
                else:
                    raise
            else:
                self.exec_block(s.orelse, fr)
        finally:
            if s.finalbody:
                # note: executed on every exit; PathEnd/Unsupported propagate through untouched
                import sys
                et = sys.exc_info()[0]
                if et is None or et in (PyRaise, _Return, _Break, _Continue):
                    self.exec_block(s.finalbody, fr)

    def handler_matches(self, h, e, fr):
        if h.type is None:
            return True
        types = h.type.elts if isinstance(h.type, ast.Tuple) else [h.type]
        for t in types:
            name = ast.unparse(t)
            short = name.split('.')[-1]
            for cand in (name, short):
                if cand in self.spec.exc_table or cand == 'BaseException':
                    if self.is_subclass(e.cls, cand):
                        return True
                    break
            else:
                raise Unsupported('unknown exception class in handler: %s' % name)
        return False

    def st_With(self, s, fr):
        # only context managers the contract models: ('noop_ctx', value) - nothing happens on exit (e.g. warnings.catch_warnings()) - and
        # ('ctx', value, on_exit) - on_exit() runs when the block is left, normally or by an exception of the program (a file being closed)
        exits = []
        for it in s.items:
            v = self.eval(it.context_expr, fr)
            if not (isinstance(v, tuple) and v and v[0] in ('noop_ctx', 'ctx')):
                raise Unsupported('with statement over %s at %s:%d' % (ast.unparse(it.context_expr)[:40], fr.fi.file, s.lineno))
            if v[0] == 'ctx':
                exits.append(v[2])
            if it.optional_vars is not None:
                self.assign(it.optional_vars, v[1] if len(v) > 1 else None, fr)
        try:
            self.exec_block(s.body, fr)
        except (PyRaise, _Return, _Break, _Continue):
            for f in reversed(exits):
                f()
            raise
        for f in reversed(exits):
            f()

    def st_Assert(self, s, fr):
        c = self.truthy(self.eval(s.test, fr))
        if not self.ctx.branch(c, 'assert@%d' % s.lineno):
            self.raise_py('AssertionError', s)

    def st_Delete(self, s, fr):
        raise Unsupported('del')

    def cut_while(self, s, fr, ordinal, lspec):
        """while loop cut at its invariant: inv(I, env, None, None) -> {name: formula}; locals the body assigns are havocked (declared shapes) or
        poisoned.  After the loop: invariant and the negated guard.  Termination is not proved."""
        ctx = self.ctx
        tag = '%s#while%d' % (fr.fi.qualname.split('.')[-1], ordinal)
        if s.orelse or any(isinstance(n, ast.Break) for n in ast.walk(s)):
            raise Unsupported('%s: break / else on a cut while loop' % tag)
        names, paths = assigned_and_mutated(s.body)
        for p in paths:
            root = p.split('.')[0]
            if p in lspec.havoc or root in lspec.havoc or (root in names and (self._fresh_in_body(root, s.body) or self._alias_of_declared(root, s.body, set(lspec.havoc)))):
                continue
            # the body writes state outside the frame of the loop contract: a named (auxiliary) obligation, refuted wherever the loop is reachable;
            # execution cannot go on without a contract for that state
            self.ctx.check('%s.frame.writes_only_declared_state[%s]' % (tag, p), False, 'auxiliary')
            raise Unsupported('%s: loop mutates %s which the loop contract does not declare' % (tag, p))
        for name, f in lspec.inv(self, fr.env, None, None).items():
            ctx.check('%s.inv.%s.entry' % (tag, name), f, lspec.kind, where='%s:%d' % (fr.fi.file, s.lineno))
        d = ctx.choose(2, tag)
        self.havoc(fr, lspec, names, tag, mutated={p.split('.')[0] for p in paths if '.' not in p})
        for f in lspec.inv(self, fr.env, None, None).values():
            ctx.assume(f)
        c = self.truthy(self.eval(s.test, fr))
        if d == 0:
            ctx.assume(to_z3(c))
            try:
                self.exec_block(s.body, fr)
            except _Continue:
                pass
            for name, f in lspec.inv(self, fr.env, None, None).items():
                ctx.check('%s.inv.%s.step' % (tag, name), f, lspec.kind, where='%s:%d' % (fr.fi.file, s.lineno))
            ctx.cover('%s.body_reachable' % tag)
            raise PathEnd()
        ctx.assume(z3.Not(to_z3(c)))

    def st_While(self, s, fr):
        lspec = self.spec.loops.get((fr.fi.qualname, fr.loop_ordinals.get(id(s))))
        if lspec is not None:
            return self.cut_while(s, fr, fr.loop_ordinals[id(s)], lspec)
        # only concrete-bounded loops are unrolled
        n = 0
        while True:
            c = self.truthy(self.eval(s.test, fr))
            if not isinstance(c, bool):
                # symbolic guard: unrolled up to the bound the contract states, with an unwinding assertion
                # (complete when the assertion is discharged; otherwise the obligation is refuted/undecided)
                bound = self.spec.while_bound.get(fr.fi.qualname)
                if bound is None and n == 0:
                    d = self._default_while_contract(s, fr)
                    if d is not None:
                        return self.cut_while(s, fr, fr.loop_ordinals[id(s)], d)
                if bound is None:
                    raise Unsupported('while with symbolic guard at %d (no unwinding bound in the contract)' % s.lineno)
                if n >= bound:
                    self.ctx.check('unwind.%s@%d' % (fr.fi.qualname.split('.')[-1], s.lineno), z3.Not(c), 'auxiliary')
                    self.ctx.assume(z3.Not(c))
                    break
                c = self.ctx.branch(c, 'while@%d:%d' % (s.lineno, n))
            if not c:
                break
            n += 1
            if n > 200:
                raise Unsupported('while unroll bound')
            try:
                self.exec_block(s.body, fr)
            except _Break:
                return
            except _Continue:
                pass
        self.exec_block(s.orelse, fr)

    def _default_while_contract(self, s, fr):
        """A while loop without a contract whose body only re-assigns plain locals from side-effect-free expressions (a search for the first free
        name, a counter): cut with the empty invariant - after the loop the locals it assigns hold arbitrary values of their sort and the guard is
        false.  Sound for partial correctness (termination is not proved anywhere); anything else in the body: no default."""
        if s.orelse or any(isinstance(n, (ast.Break, ast.Return, ast.Raise, ast.Yield, ast.YieldFrom, ast.Call, ast.Await)) for st in s.body for n in ast.walk(st)
                           if not (isinstance(n, ast.Call) and isinstance(n.func, ast.Name) and n.func.id in ('str', 'len', 'int'))):
            return None
        havoc = {}
        for st in s.body:
            if isinstance(st, ast.Assign) and len(st.targets) == 1 and isinstance(st.targets[0], ast.Name):
                nm = st.targets[0].id
            elif isinstance(st, ast.AugAssign) and isinstance(st.target, ast.Name):
                nm = st.target.id
            else:
                return None
            cur = fr.env.get(nm) if nm in fr.env else None
            if isinstance(cur, bool) or cur is None:
                return None
            if isinstance(cur, int):
                srt = IntS
            elif isinstance(cur, str):
                srt = StrS
            elif is_sym(cur) and cur.sort() in (IntS, StrS, RealS, BoolS):
                srt = cur.sort()
            else:
                return None
            havoc[nm] = (lambda nm, srt: lambda c: c.fresh(nm, srt))(nm, srt)
        if not havoc:
            return None
        return LoopSpec(lambda I_, e, k, it: {}, havoc)

    # ------------------------------------------------------------------ loops
    def chars_of(self, text):
        """iterating a symbolic string: the sequence of its characters (one-character strings), as many as its length"""
        chars = UF('str.chars', StrS, z3.SeqSort(StrS))(text)
        if not self.ctx.pure:
            self.ctx.assume(z3.Length(chars) == z3.Length(text))
        return SymSeq([chars])

    def st_For(self, s, fr):
        it = self.eval(s.iter, fr)
        items = self.concrete_items(it)
        if items is not None:
            for x in items:
                self.assign(s.target, x, fr)
                try:
                    self.exec_block(s.body, fr)
                except _Break:
                    return
                except _Continue:
                    continue
            self.exec_block(s.orelse, fr)
            return
        if is_sym(it) and it.sort() == StrS:
            it = self.chars_of(it)
        ordinal = fr.loop_ordinals[id(s)]
        lspec = self.spec.loops.get((fr.fi.qualname, ordinal))
        if lspec is None:
            lspec = self._default_loop_contract(fr, s)
        if lspec is None:
            raise Unsupported('loop %d of %s (line %d) over a symbolic collection has no contract'
                              % (ordinal, fr.fi.qualname, s.lineno))
        if s.orelse:
            raise Unsupported('for-else on a cut loop')
        self.cut_loop(s, fr, it, ordinal, lspec,
                      bind=lambda x: self.assign(s.target, x, fr),
                      body=lambda: self.exec_block(s.body, fr),
                      frame_nodes=[s.target] + s.body, iter_node=s.iter)

    def _default_loop_contract(self, fr, s):
        """A loop no contract mentions (typically one that a refactoring introduced or moved into a helper): the weakest contract - no invariant, every
        local the body assigns or mutates is unknown afterwards - provided the body writes nothing but locals of this function that hold objects
        built in this function.  One arbitrary iteration is still executed, so an exception the body can raise is still seen.  Sound
        over-approximation; a value made unknown here cannot reach tracked state without the run becoming UNDECIDED."""
        fn = fr.fi.node
        params = {a.arg for a in fn.args.posonlyargs + fn.args.args + fn.args.kwonlyargs}
        if fn.args.vararg:
            params.add(fn.args.vararg.arg)
        names, paths = assigned_and_mutated(s.body)
        tn, _ = assigned_and_mutated([ast.Assign(targets=[s.target], value=ast.Constant(0))])
        havoc = {}
        for p in paths:
            if p == '<complex>' or '.' in p:
                return None
            if p in params or not (self._fresh_in_body(p, fn.body) or p in names):
                return None
        for nme in (names | set(paths)) - tn:
            if nme in params:
                return None
            havoc[nme] = lambda I_: Untracked()
        return LoopSpec(lambda I_, env, k, it: {}, havoc)

    def concrete_items(self, it):
        if isinstance(it, Poison):
            raise Unsupported('read of loop-havocked local %s' % it.name)
        if isinstance(it, (list, tuple)):
            return list(it)
        if isinstance(it, dict):
            return list(it.keys())
        if isinstance(it, (set, frozenset)):
            return sorted(it, key=repr)
        if isinstance(it, range):
            return list(it)
        if isinstance(it, str):
            return list(it)
        return None

    def cut_loop(self, s, fr, it, ordinal, lspec, bind, body, frame_nodes, iter_node=None):
        ctx = self.ctx
        tag = '%s#loop%d' % (fr.fi.qualname.split('.')[-1], ordinal)
        # syntactic frame
        wrapper = ast.Module(body=[n if isinstance(n, ast.stmt) else ast.Expr(n) for n in frame_nodes[1:]],
                             type_ignores=[])
        names, paths = assigned_and_mutated(wrapper.body)
        tn, _ = assigned_and_mutated([ast.Assign(targets=[frame_nodes[0]], value=ast.Constant(0))])
        names |= tn
        self._bind_renamed_local(fr, lspec, names, paths, tn, wrapper.body, tag)
        declared = set(lspec.havoc)
        # elements of m.items()/m.values() alias the map: a store through the loop target is a
        # store into the map
        if iter_node is not None and isinstance(iter_node, ast.Call) and isinstance(iter_node.func, ast.Attribute) \
                and iter_node.func.attr in ('items', 'values') and isinstance(iter_node.func.value, ast.Name):
            coll = iter_node.func.value.id
            paths = {(coll if p.split('.')[0] in tn else p) for p in paths}
        for p in paths:
            root = p.split('.')[0]
            if p in declared or root in declared:
                continue
            if p == '<complex>':
                raise Unsupported('%s: in-place mutation through a complex receiver' % tag)
            if root in names and (self._fresh_in_body(root, wrapper.body) or self._alias_of_declared(root, wrapper.body, declared)):
                continue
            # the body writes state outside the frame of the loop contract: a named (auxiliary) obligation, refuted wherever the loop is reachable;
            # execution cannot go on without a contract for that state
            self.ctx.check('%s.frame.writes_only_declared_state[%s]' % (tag, p), False, 'auxiliary')
            raise Unsupported('%s: loop mutates %s which the loop contract does not declare' % (tag, p))
        if isinstance(it, Obj) and not isinstance(it, (SymSeq, SymSet)) and (self.is_pyany(it) or it.cls in ('pyvalue', None)):
            # a Python value of unknown type: iterating it is a TypeError unless it is iterable - which a list / tuple / set / dict / str is (so under an
            # isinstance test of the code the error path is infeasible) - and otherwise yields elements about which nothing is known
            iterable = UF('py.iterable', ObjS, BoolS)(it.expr)
            for nm in ('list', 'tuple', 'set', 'frozenset', 'dict', 'str'):
                ctx.assume(z3.Implies(UF('isinstance_' + nm, ObjS, BoolS)(it.expr), iterable))
            if not ctx.branch(iterable, 'iterable@%d' % getattr(s, 'lineno', 0), prune=True):
                self.raise_py('TypeError', s)
            it = Untracked()
        if isinstance(it, Untracked):
            # a collection the contract does not track: some number of elements about which nothing is known
            it = _OpaqueSeq(ctx.fresh('n_untracked_%s' % tag, IntS))
            ctx.assume(it.n >= 0)
        enum_start = None
        if isinstance(it, Enumerated):
            enum_start = it.start
            it = it.seq
        is_map = isinstance(it, MapItems)
        is_set = isinstance(it, SymSet) or is_map
        if isinstance(it, (SymSeq, _OpaqueSeq)):
            n = it.length()
        elif is_map:
            if it.m.ksort is None:
                return
            n = it.m.dom
        elif is_set:
            if it.expr is None:
                return   # empty set: zero iterations
            n = it.expr
        else:
            raise Unsupported('%s: iteration over %r' % (tag, it))
        if lspec.pre is not None:
            fr.env['$pre'] = lspec.pre(self, fr.env)

        def inv_at(k):
            return lspec.inv(self, fr.env, k, it)

        def start():
            return z3.IntVal(0) if not is_set else z3.EmptySet(n.sort().domain())

        def axioms(k):
            if lspec.unfold:
                for f in lspec.unfold(self, fr.env, k, it):
                    ctx.assume(f)

        axioms(start())
        for name, f in inv_at(start()).items():
            ctx.check('%s.inv.%s.entry' % (tag, name), f, lspec.kind, where='%s:%d' % (fr.fi.file, s.lineno))
        d = ctx.choose(2, tag)
        self.havoc(fr, lspec, names, tag, mutated={p.split('.')[0] for p in paths if '.' not in p})
        if is_map:
            it = self.eval(iter_node, fr)
            n = it.m.dom
        if d == 0:
            if not is_set:
                k = ctx.fresh('k_%s' % tag, IntS)
                ctx.assume(k >= 0)
                ctx.assume(k < n)
                elem = it.elem(k)
                if enum_start is not None:
                    elem = (k + enum_start, elem)
                nxt = k + 1
            else:
                k = ctx.fresh('P_%s' % tag, n.sort())
                x = ctx.fresh('x_%s' % tag, n.sort().domain())
                ctx.assume(z3.IsSubset(k, n))
                ctx.assume(z3.IsMember(x, n))
                ctx.assume(z3.Not(z3.IsMember(x, k)))
                elem = wrap(x)
                if is_map:
                    ent = MapEntry(it.m, elem) if None not in it.m.fields else self.map_load(it.m, elem, None)
                    elem = {'items': (elem, ent), 'values': ent, 'keys': elem}[it.mode]
                nxt = z3.SetAdd(k, x)
            for f in inv_at(k).values():
                ctx.assume(f)
            axioms(k)
            bind(elem)
            try:
                body()
            except _Continue:
                pass
            except _Break:
                if lspec.exit_facts:
                    for f in lspec.exit_facts(self, fr.env, k, it):
                        ctx.assume(f)
                if lspec.on_exit:
                    lspec.on_exit('break', tag)
                return      # continue after the loop with the state at the break
            except (_Return, PyRaise) as ex:
                if lspec.exit_facts:
                    for f in lspec.exit_facts(self, fr.env, k, it):
                        ctx.assume(f)
                if lspec.on_exit:
                    lspec.on_exit('return' if isinstance(ex, _Return) else 'raise', tag)
                raise
            for name, f in lspec.inv(self, fr.env, nxt, it).items():
                ctx.check('%s.inv.%s.step' % (tag, name), f, lspec.kind,
                          where='%s:%d' % (fr.fi.file, s.lineno))
            ctx.cover('%s.body_reachable' % tag)
            raise PathEnd()
        else:
            for f in inv_at(n).values():
                ctx.assume(f)
            if not is_set:
                axioms(n)

    def _bind_renamed_local(self, fr, lspec, names, paths, targets, body, tag):
        """A loop contract names the locals it carries.  If exactly one carried local named by the contract no longer exists in the function and the loop
        carries exactly one local the contract does not name, the two are the same variable under a new name (renaming a local is the commonest
        harmless edit): the contract is read with that name.  A wrong guess cannot make a proof pass - every obligation is still about the real code."""
        if isinstance(fr.env, _AliasEnv) and any(k in fr.env.alias for k in lspec.havoc):
            # an enclosing loop contract already established the new name
            lspec.havoc = {fr.env.alias.get(k, k): v for k, v in lspec.havoc.items()}
        fn = fr.fi.node
        assigned_in_fn = {n.id for n in ast.walk(fn) if isinstance(n, ast.Name) and isinstance(n.ctx, (ast.Store, ast.Del))}
        params = {a.arg for a in fn.args.posonlyargs + fn.args.args + fn.args.kwonlyargs}
        declared = [d for d in lspec.havoc if '.' not in d]
        missing = [d for d in declared if d not in assigned_in_fn and d not in params and d not in fr.env]
        if len(missing) != 1:
            return
        in_body = {n.id for st in body for n in ast.walk(st) if isinstance(n, ast.Name) and isinstance(n.ctx, ast.Store)}
        body_ids = {id(n) for st in body for n in ast.walk(st)}
        outside = {n.id for n in ast.walk(fn) if isinstance(n, ast.Name) and isinstance(n.ctx, ast.Store) and id(n) not in body_ids}
        roots = {p.split('.')[0] for p in paths if p != '<complex>'}
        declared_roots = {d.split('.')[0] for d in lspec.havoc}
        cands = [x for x in sorted((names | roots) - declared_roots - set(targets))
                 if x in fr.env and x in outside and not self._fresh_in_body(x, body) and not self._alias_of_declared(x, body, set(lspec.havoc))]
        if len(cands) != 1:
            return
        old, new = missing[0], cands[0]
        lspec.havoc = {(new if k == old else k): v for k, v in lspec.havoc.items()}
        if not isinstance(fr.env, _AliasEnv):
            fr.env = _AliasEnv(fr.env)
        fr.env.alias[old] = new
        self.ctx.note('contract local `%s` read as `%s` (%s)' % (old, new, tag)) if hasattr(self.ctx, 'note') else None

    def _alias_of_declared(self, name, body, declared):
        """True if every assignment to the local `name` in the loop body binds an element / attribute of state the loop contract declares
        (`entry = totals[key]`): a write through `name` is then a write into that declared state, which the executor performs on the state itself."""
        ok = False
        for stmt in body:
            for n in ast.walk(stmt):
                tgt = None
                if isinstance(n, ast.Assign) and any(isinstance(t, ast.Name) and t.id == name for t in n.targets):
                    tgt = n.value
                elif isinstance(n, ast.AnnAssign) and isinstance(n.target, ast.Name) and n.target.id == name:
                    tgt = n.value
                elif isinstance(n, (ast.AugAssign, ast.NamedExpr)) and isinstance(n.target, ast.Name) and n.target.id == name:
                    return False
                if tgt is None:
                    continue
                v = tgt
                if not isinstance(v, (ast.Subscript, ast.Attribute)):
                    return False
                while isinstance(v, (ast.Subscript, ast.Attribute)):
                    v = v.value
                if isinstance(v, ast.Name) and (v.id in declared or any(d.split('.')[0] == v.id for d in declared)):
                    ok = True
                else:
                    return False
        return ok

    def _fresh_in_body(self, name, body):
        """True if every assignment to `name` in body binds a freshly allocated object."""
        ok = False
        for stmt in body:
            for n in ast.walk(stmt):
                if isinstance(n, ast.Assign) and any(isinstance(t, ast.Name) and t.id == name for t in n.targets):
                    if isinstance(n.value, (ast.List, ast.Dict, ast.Set, ast.ListComp, ast.SetComp,
                                            ast.DictComp, ast.Call, ast.Tuple, ast.Constant, ast.JoinedStr)):
                        ok = True
                    else:
                        return False
                elif isinstance(n, ast.AnnAssign) and isinstance(n.target, ast.Name) and n.target.id == name:
                    if n.value is not None and isinstance(n.value, (ast.List, ast.Dict, ast.Set, ast.Call)):
                        ok = True
                    else:
                        return False
        return ok

    def havoc(self, fr, lspec, names, tag, mutated=()):
        for path, factory in lspec.havoc.items():
            v = factory(self)
            parts = path.split('.')
            if len(parts) == 1:
                old = fr.env.get(parts[0]) if parts[0] in fr.env else None
                if parts[0] in mutated and type(old) is type(v) and isinstance(old, (SymMap, SymSeq, SymSet)):
                    # the loop writes INTO the object this local names (x[k] = ..., x.pop(..), x.append(..)): whatever else names the same object - a
                    # parameter it was bound from without a copy, a field - sees those writes, so the object itself takes the arbitrary state
                    old.__dict__.clear()
                    old.__dict__.update(v.__dict__)
                    v = old
                fr.env[parts[0]] = v
            else:
                o = fr.env.get(parts[0])
                for p in parts[1:-1]:
                    o = o.fields[p] if isinstance(o, Rec) else None
                if not isinstance(o, Rec):
                    raise Unsupported('%s: havoc path %s' % (tag, path))
                o.fields[parts[-1]] = v
        for nme in names:
            if nme not in lspec.havoc:
                fr.env[nme] = Poison(nme)

    # ------------------------------------------------------------------ expressions
    def eval(self, e, fr):
        m = getattr(self, 'ex_' + type(e).__name__, None)
        if m is None:
            raise Unsupported('expression %s at %s:%d' % (type(e).__name__, fr.fi.file, e.lineno))
        v = m(e, fr)
        return v

    def ex_Constant(self, e, fr):
        return e.value

    def ex_Name(self, e, fr):
        nm = e.id
        if nm in fr.env:
            v = fr.env[nm]
            if isinstance(v, Poison):
                # a local assigned by an earlier iteration (or before the loop and reassigned in it) is read although the loop contract does not
                # carry it: the iteration depends on undeclared state of other iterations
                self.ctx.check('loopframe.reads_only_declared_carried_state[%s@%d]' % (nm, e.lineno), False, 'auxiliary')
                raise Unsupported('read of loop-havocked local %s (line %d)' % (nm, e.lineno))
            return v
        return self.global_name(nm, fr, e)

    def global_name(self, nm, fr, e=None):
        if nm in self.spec.globals:
            return self.spec.globals[nm]
        mod = fr.fi.mod
        if nm in mod.globals_const:
            node = mod.globals_const[nm]
            try:
                return self.eval_in(node, extract.FunctionInfo(mod.name + '.<module>', mod, _fake_fn(node), None), {})
            except Unsupported:
                raise
        if nm in mod.functions:
            return Closure(mod.functions[nm], {}, extract.FunctionInfo(mod.name + '.' + nm, mod, mod.functions[nm]))
        if nm in mod.classes:
            return ClassRef(mod.name, nm, mod.classes[nm])
        if nm in mod.imports:
            return self.resolve_dotted(mod.imports[nm])
        if nm in ('True', 'False', 'None'):
            return {'True': True, 'False': False, 'None': None}[nm]
        if nm in BUILTINS:
            return Func(BUILTINS[nm], nm)
        if nm in self.spec.exc_table:
            return ClassRef('builtins', nm, None)
        import builtins as _bi
        if hasattr(_bi, nm):
            raise Unsupported('builtin %s is not modelled' % nm)
        # CPython: NameError at run time
        self.ctx.note('NameError:%s' % nm)
        raise PyRaise('NameError', (nm,), where='%s:%s' % (fr.fi.file, getattr(e, 'lineno', '?')))

    def resolve_dotted(self, dotted):
        parts = dotted.split('.')
        if parts[0] == 'tally':
            try:
                extract.module(dotted)
                return ModuleRef(dotted)
            except extract.ExtractionError:
                pass
            modname, name = '.'.join(parts[:-1]), parts[-1]
            try:
                mod = extract.module(modname)
            except extract.ExtractionError:
                return ModuleRef(dotted)
            if name in mod.functions:
                return Closure(mod.functions[name], {}, extract.FunctionInfo(dotted, mod, mod.functions[name]))
            if name in mod.classes:
                return ClassRef(modname, name, mod.classes[name])
            if name in mod.globals_const:
                return self.eval_in(mod.globals_const[name],
                                    extract.FunctionInfo(modname + '.<module>', mod, _fake_fn(mod.globals_const[name])), {})
            if name in mod.imports:
                return self.resolve_dotted(mod.imports[name])
            raise Unsupported('cannot resolve %s' % dotted)
        if dotted in self.spec.models:
            return self.spec.models[dotted]
        if dotted in EXTERNALS:
            return Func(BUILTINS[EXTERNALS[dotted]], EXTERNALS[dotted])
        return ModuleRef(dotted)

    def ex_Tuple(self, e, fr):
        return tuple(self.eval(x, fr) for x in e.elts)

    def ex_List(self, e, fr):
        return [self.eval(x, fr) for x in e.elts]

    def ex_Set(self, e, fr):
        s = SymSet()
        for x in e.elts:
            s.add(self.eval(x, fr))
        return s

    def ex_Dict(self, e, fr):
        d = {}
        for k, v in zip(e.keys, e.values):
            if k is None:
                raise Unsupported('dict unpacking')
            kk = self.eval(k, fr)
            if is_sym(kk) or isinstance(kk, Obj):
                raise Unsupported('symbolic key in dict display')
            d[kk] = self.eval(v, fr)
        return d

    def ex_JoinedStr(self, e, fr):
        parts = []
        for v in e.values:
            if isinstance(v, ast.Constant):
                parts.append(v.value)
            else:
                x = self.eval(v.value, fr)
                parts.append(self.to_str(x, v.format_spec, v.conversion))
        if all(isinstance(p, str) for p in parts):
            return ''.join(parts)
        if any(isinstance(p, Untracked) for p in parts):
            return Untracked()
        out = None
        for p in parts:
            z = to_z3(p)
            out = z if out is None else z3.Concat(out, z)
        return out

    def to_str(self, x, fmt=None, conv=-1):
        if isinstance(x, Untracked):
            return Untracked()
        if isinstance(x, str) and fmt is None:
            return x
        if isinstance(x, (int, float)) and not isinstance(x, bool) and fmt is None:
            return str(x)
        if is_sym(x) and x.sort() == StrS and fmt is None:
            return x
        if is_sym(x) and x.sort() == IntS and fmt is None:
            return UF('fmt_int', IntS, StrS)(x)
        if is_sym(x) and x.sort() == RealS:
            key = ast.unparse(fmt) if fmt is not None else ''
            return UF('fmt_float[%s]' % key, RealS, StrS)(x)
        if isinstance(x, PyRaise):
            return UF('exc_message', StrS, StrS)(z3.StringVal(x.cls))
        if isinstance(x, Obj) and x.cls in ('pyany', 'pydict'):
            return self.ctx.fresh('str_of_any', StrS)
        if isinstance(x, Obj):
            return UF('str_of_obj', ObjS, StrS)(x.expr)
        if x is None or isinstance(x, (SymSet, SymMap, SymSeq, list, dict, tuple, SymOpt, bool)):
            return Untracked()       # text of a container / optional: only ever used in messages
        raise Unsupported('str() of %r' % (x,))

    def speculate(self, cond, fn):
        """Evaluate fn() under the extra assumption cond without forking; returns (ok, value)."""
        ctx = self.ctx
        ctx.assumptions.append(cond)
        ctx.pure += 1
        try:
            return True, fn()
        except (Impure, PyRaise, _Return, _Break, _Continue, Unsupported):
            return False, None
        finally:
            ctx.pure -= 1
            ctx.assumptions.pop()

    def merge_values(self, c, a, b):
        """If(c, a, b) for scalar values; _MISSING when the two values cannot be merged."""
        if a is b:
            return a
        if isinstance(a, (bool, int, float, str)) and isinstance(b, (bool, int, float, str)) and type(a) is type(b) and a == b:
            return a
        scal = (bool, int, float, str)
        if (is_sym(a) or isinstance(a, scal)) and (is_sym(b) or isinstance(b, scal)):
            try:
                za, zb = self._coerce_pair(a, b)
            except Unsupported:
                return _MISSING
            if za.sort() == zb.sort():
                return z3.If(c, za, zb)
        if isinstance(a, Obj) and isinstance(b, Obj) and a.cls == b.cls and a.cls not in ('pyany', 'pydict'):
            return Obj(z3.If(c, a.expr, b.expr), a.cls)
        return _MISSING

    def ex_IfExp(self, e, fr):
        c = self.truthy(self.eval(e.test, fr))
        if not isinstance(c, bool) and not self.ctx.pure:
            ok1, a = self.speculate(c, lambda: self.eval(e.body, fr))
            if ok1:
                ok2, b = self.speculate(z3.Not(c), lambda: self.eval(e.orelse, fr))
                if ok2:
                    m = self.merge_values(c, a, b)
                    if m is not _MISSING:
                        return m
        if self.ctx.branch(c, 'ifexp@%d' % e.lineno):
            return self.eval(e.body, fr)
        return self.eval(e.orelse, fr)

    def ex_BoolOp(self, e, fr):
        is_and = isinstance(e.op, ast.And)
        if not self.ctx.pure or True:
            # eager evaluation when every operand is a pure boolean: one formula instead of one fork per operand
            ctx = self.ctx
            ctx.pure += 1
            try:
                vals = []
                acc_cond = []
                okk = True
                for sub in e.values:
                    # operand i is evaluated under "all earlier operands truthy (and) / falsy (or)"
                    ctx.assumptions.extend(acc_cond)
                    try:
                        v = self.eval(sub, fr)
                        t = self.truthy(v)
                    finally:
                        for _ in acc_cond:
                            ctx.assumptions.pop()
                    if not (isinstance(t, bool) or (is_sym(t) and t.sort() == BoolS)) or not (isinstance(v, bool) or (is_sym(v) and v.sort() == BoolS)):
                        okk = False
                        break
                    vals.append(to_z3(t))
                    acc_cond.append(to_z3(t) if is_and else z3.Not(to_z3(t)))
                if okk:
                    return z3.simplify(z3.And(*vals)) if is_and and False else (z3.And(*vals) if is_and else z3.Or(*vals))
            except (Impure, PyRaise, Unsupported):
                pass
            finally:
                ctx.pure -= 1
        v = None
        for i, sub in enumerate(e.values):
            v = self.eval(sub, fr)
            if i == len(e.values) - 1:
                return v
            t = self.truthy(v)
            b = self.ctx.branch(t, 'boolop@%d:%d' % (e.lineno, i))
            if is_and and not b:
                return v
            if not is_and and b:
                return v
        return v

    def ex_UnaryOp(self, e, fr):
        v = self.eval(e.operand, fr)
        if isinstance(v, Untracked):
            return Untracked()
        if isinstance(e.op, ast.Not):
            t = self.truthy(v)
            return self.neg(t)
        if isinstance(e.op, ast.USub):
            if isinstance(v, (int, float)):
                return -v
            if is_sym(v) and v.sort() in (IntS, RealS):
                return -v
        if isinstance(e.op, ast.UAdd):
            if isinstance(v, (int, float)) or (is_sym(v) and v.sort() in (IntS, RealS)):
                return v
        raise Unsupported('unary %s on %r' % (type(e.op).__name__, v))

    def ex_BinOp(self, e, fr):
        return self.binop(e.op, self.eval(e.left, fr), self.eval(e.right, fr), e)

    def binop(self, op, a, b, node):
        for x in (a, b):
            if isinstance(x, Poison):
                raise Unsupported('read of loop-havocked local %s' % x.name)
        if isinstance(a, Untracked) or isinstance(b, Untracked):
            return Untracked()
        if self.is_pyany(a) or self.is_pyany(b) or self.is_pydict(a) or self.is_pydict(b):
            return self.pyany_op('binop', node, ['TypeError', 'ZeroDivisionError', 'OverflowError', 'ValueError'])
        conc = (int, float, str, bool, tuple)
        if isinstance(a, conc) and isinstance(b, conc):
            try:
                return _concrete_binop(op, a, b)
            except ZeroDivisionError:
                self.raise_py('ZeroDivisionError', node)
            except TypeError:
                self.raise_py('TypeError', node)
        if isinstance(a, list) and isinstance(b, list) and isinstance(op, ast.Add):
            return a + b
        if isinstance(op, ast.BitAnd) and isinstance(a, (SymSet, set, frozenset)) and isinstance(b, (SymSet, set, frozenset)):
            sa = a if isinstance(a, SymSet) and a.expr is not None else (b if isinstance(b, SymSet) and b.expr is not None else None)
            if sa is None:
                return SymSet()
            sort = sa.expr.sort().domain()
            return SymSet(z3.SetIntersect(set_expr(a, sort), set_expr(b, sort)))
        if isinstance(op, ast.Sub) and isinstance(a, (SymSet, set, frozenset)) and isinstance(b, (SymSet, set, frozenset)):
            sa = a if isinstance(a, SymSet) and a.expr is not None else (b if isinstance(b, SymSet) and b.expr is not None else None)
            if sa is None:
                return a
            sort = sa.expr.sort().domain()
            return SymSet(z3.SetDifference(set_expr(a, sort), set_expr(b, sort)))
        if isinstance(op, ast.BitOr) and isinstance(a, (SymSet, set, frozenset)) and isinstance(b, (SymSet, set, frozenset)):
            sa = a if isinstance(a, SymSet) and a.expr is not None else (b if isinstance(b, SymSet) and b.expr is not None else None)
            if sa is None:
                return SymSet()
            sort = sa.expr.sort().domain()
            return SymSet(z3.SetUnion(set_expr(a, sort), set_expr(b, sort)))
        if (is_sym(a) or isinstance(a, conc)) and (is_sym(b) or isinstance(b, conc)):
            za, zb = self._coerce_pair(a, b)
            sa, sb = za.sort(), zb.sort()
            if sa == StrS and sb == StrS:
                if isinstance(op, ast.Add):
                    return z3.Concat(za, zb)
                raise Unsupported('string operator %s' % type(op).__name__)
            if sa == BoolS:
                za = z3.If(za, 1, 0)
                sa = IntS
            if sb == BoolS:
                zb = z3.If(zb, 1, 0)
                sb = IntS
            if sa != sb:
                if sa == IntS and sb == RealS:
                    za = z3.ToReal(za)
                elif sa == RealS and sb == IntS:
                    zb = z3.ToReal(zb)
                else:
                    self.raise_py('TypeError', node)
            num = za.sort() in (IntS, RealS)
            if not num:
                self.raise_py('TypeError', node)
            if isinstance(op, ast.Add):
                return za + zb
            if isinstance(op, ast.Sub):
                return za - zb
            if isinstance(op, ast.Mult):
                return za * zb
            if isinstance(op, ast.Div):
                if self.ctx.branch(zb == 0, 'div0@%d' % node.lineno):
                    self.raise_py('ZeroDivisionError', node)
                if za.sort() == IntS:
                    za, zb = z3.ToReal(za), z3.ToReal(zb)
                return za / zb
            if isinstance(op, (ast.FloorDiv, ast.Mod)) and za.sort() == IntS:
                if self.ctx.branch(zb == 0, 'div0@%d' % node.lineno):
                    self.raise_py('ZeroDivisionError', node)
                # Python floor semantics: q = floor(a/b); z3 div is Euclidean (remainder >= 0)
                q = z3.If(zb > 0, za / zb, -((-za) / (-zb)) if False else (za / zb))
                if self.ctx.branch(zb > 0, 'divsign@%d' % node.lineno):
                    qq = za / zb
                    return qq if isinstance(op, ast.FloorDiv) else za - qq * zb
                raise Unsupported('floor division by a possibly negative divisor')
            raise Unsupported('operator %s' % type(op).__name__)
        raise Unsupported('binop %s on %r, %r' % (type(op).__name__, a, b))

    def ex_Compare(self, e, fr):
        left = self.eval(e.left, fr)
        result = None
        for i, (op, rnode) in enumerate(zip(e.ops, e.comparators)):
            right = self.eval(rnode, fr)
            c = self.compare(op, left, right, e)
            if len(e.ops) == 1:
                return c
            # chained: short-circuit
            if i < len(e.ops) - 1:
                if not self.ctx.branch(self.truthy(c), 'cmpchain@%d:%d' % (e.lineno, i)):
                    return False
            else:
                return c
            left = right
        return result

    def compare(self, op, a, b, node):
        for x in (a, b):
            if isinstance(x, Poison):
                raise Unsupported('read of loop-havocked local %s' % x.name)
        if isinstance(a, Untracked) or isinstance(b, Untracked):
            return Untracked()
        if (self.is_pyany(a) or self.is_pyany(b)) and not isinstance(op, (ast.Is, ast.IsNot, ast.Eq, ast.NotEq)):
            if isinstance(op, (ast.In, ast.NotIn)) and self.is_pydict(b):
                return self.ctx.fresh('nondet', BoolS)
            self.pyany_op('compare', node, ['TypeError'])
            return self.ctx.fresh('nondet', BoolS)
        if isinstance(op, ast.Is):
            if b is None or a is None:
                return self.is_none(a if b is None else b)
            raise Unsupported('is on non-None')
        if isinstance(op, ast.IsNot):
            r = self.compare(ast.Is(), a, b, node)
            return self.neg(r)
        if isinstance(op, ast.Eq):
            return self.eq(a, b)
        if isinstance(op, ast.NotEq):
            r = self.eq(a, b)
            return self.neg(r)
        if isinstance(op, (ast.In, ast.NotIn)):
            r = self.contains(b, a, node)
            if isinstance(op, ast.NotIn):
                r = self.neg(r)
            return r
        if isinstance(a, Obj) and isinstance(b, Obj) and a.cls == b.cls and a.cls in self.spec.order_keys:
            key = self.spec.order_keys[a.cls]
            a, b = key(a.expr), key(b.expr)
        conc = (int, float, str, bool)
        if isinstance(a, conc) and isinstance(b, conc):
            try:
                return _concrete_cmp(op, a, b)
            except TypeError:
                self.raise_py('TypeError', node)
        if (is_sym(a) or isinstance(a, conc)) and (is_sym(b) or isinstance(b, conc)):
            za, zb = self._coerce_pair(a, b)
            if za.sort() != zb.sort() or za.sort() not in (IntS, RealS, StrS):
                if za.sort() == BoolS and zb.sort() == BoolS:
                    za, zb = z3.If(za, 1, 0), z3.If(zb, 1, 0)
                else:
                    self.raise_py('TypeError', node)
            if za.sort() == StrS:
                raise Unsupported('string ordering')
            if isinstance(op, ast.Lt):
                return za < zb
            if isinstance(op, ast.LtE):
                return za <= zb
            if isinstance(op, ast.Gt):
                return za > zb
            if isinstance(op, ast.GtE):
                return za >= zb
        raise Unsupported('compare %s on %r, %r' % (type(op).__name__, a, b))

    def contains(self, container, item, node):
        if isinstance(container, Poison) or isinstance(item, Poison):
            raise Unsupported('read of loop-havocked local')
        if isinstance(container, SymSet):
            if container.expr is None:
                return False
            return container.contains(item)
        if isinstance(container, (set, frozenset, list, tuple)):
            if not is_sym(item) and not isinstance(item, Obj):
                if all(not is_sym(x) and not isinstance(x, Obj) for x in container):
                    return item in container
            parts = [self.eq(item, x) for x in container]
            if not parts:
                return False
            if any(p is True for p in parts):
                return True
            parts = [to_z3(p) for p in parts if p is not False]
            return z3.Or(*parts) if parts else False
        if isinstance(container, dict):
            if is_sym(item) or isinstance(item, Obj):
                parts = [self.eq(item, k) for k in container]
                parts = [to_z3(p) for p in parts if p is not False]
                return z3.Or(*parts) if parts else False
            return item in container
        if isinstance(container, str) and isinstance(item, str):
            return item in container
        if (is_sym(container) and container.sort() == StrS) or isinstance(container, str):
            if isinstance(item, str) or (is_sym(item) and item.sort() == StrS):
                return z3.Contains(to_z3(container), to_z3(item))
            self.raise_py('TypeError', node)
        if isinstance(container, SymMap):
            if container.ksort is None:
                return False
            return z3.IsMember(to_z3(item, container.ksort), container.dom)
        if isinstance(container, Untracked) or isinstance(item, Untracked):
            return Untracked()
        if isinstance(container, Obj) and ('contains', container.cls) in self.spec.field_sorts:
            return self.spec.field_sorts[('contains', container.cls)](self, container, item, node)
        if self.is_pydict(container):
            return self.ctx.fresh('nondet', BoolS)
        if self.is_pyany(container):
            self.pyany_op('contains', node, ['TypeError'])
            return self.ctx.fresh('nondet', BoolS)
        if isinstance(container, MapEntry):
            m = container.m
            if isinstance(item, str):
                if item in m.fields:
                    return True
                return Untracked()
        if isinstance(container, SymSeq) and container.arity is None:
            return z3.Contains(container.cols[0], z3.Unit(to_z3(item, container.cols[0].sort().basis())))
        raise Unsupported('in on %r' % (container,))

    def ex_Attribute(self, e, fr):
        o = self.eval(e.value, fr)
        return self.getattr(o, e.attr, e, fr)

    def getattr(self, o, attr, node, fr):
        if isinstance(o, Poison):
            raise Unsupported('read of loop-havocked local %s' % o.name)
        if isinstance(o, SymOpt):
            # attribute access on an Optional: None would raise AttributeError
            if not self.ctx.branch(o.is_some, 'notnone@%d' % getattr(node, 'lineno', 0), prune=True):
                self.raise_py('AttributeError', node)
            o = o.value
        if isinstance(o, Rec):
            if attr in o.fields:
                return o.fields[attr]
            cls = self.find_class(o.cls)
            if cls is not None:
                _, methods, props = extract.class_members(cls.node)
                if attr in props:
                    fi = extract.FunctionInfo('%s.%s.%s' % (cls.modname, cls.name, attr), extract.module(cls.modname), props[attr], cls.node)
                    return self.call_function(fi, [], {}, self_obj=o)
                if attr in methods:
                    return ('boundmethod', o, cls, methods[attr])
            return ('boundattr', o, attr)
        if isinstance(o, Obj):
            if o.cls in ('pyany', 'pydict'):
                return ('boundattr', o, attr)
            if o.cls is not None:
                cls = self.find_class(o.cls)
                if cls is not None:
                    fields, methods, props = extract.class_members(cls.node)
                    if attr in props:
                        fi = extract.FunctionInfo('%s.%s.%s' % (cls.modname, cls.name, attr), extract.module(cls.modname), props[attr], cls.node)
                        return self.call_function(fi, [], {}, self_obj=o)
                    if attr in fields or (o.cls, attr) in self.spec.field_sorts:
                        return self.obj_field(o, attr, fields.get(attr))
                    if attr in methods:
                        return ('boundmethod', o, cls, methods[attr])
                elif (o.cls, attr) in self.spec.field_sorts:
                    return self.obj_field(o, attr, None)
            return ('boundattr', o, attr)
        if isinstance(o, ModuleRef):
            full = o.name + '.' + attr
            if full in self.spec.globals:
                return self.spec.globals[full]
            if full in self.spec.models:
                return self.spec.models[full]
            if o.name.startswith('tally'):
                return self.resolve_dotted(full)
            return ModuleRef(full)
        if isinstance(o, dict) and attr in ('get', 'items', 'keys', 'values', 'copy', 'update', 'setdefault', 'pop'):
            return ('boundattr', o, attr)
        if isinstance(o, PyRaise):
            return UF('exc_attr_' + attr, StrS, StrS)(z3.StringVal(o.cls))
        return ('boundattr', o, attr)

    def find_class(self, clsname):
        for mn in list(extract._cache):
            mod = extract._cache[mn]
            if clsname in mod.classes:
                return ClassRef(mn, clsname, mod.classes[clsname])
        return None

    def obj_field(self, o, attr, decl):
        spec = self.spec.field_sorts.get((o.cls, attr))
        if spec is None and decl is not None:
            spec = _sort_from_annotation(decl[0])
        if spec is None:
            spec = ObjS
        if isinstance(spec, tuple) and spec[0] == 'seq':
            _, sort, cls = spec
            return SymSeq([UF('%s.%s' % (o.cls, attr), ObjS, z3.SeqSort(sort))(o.expr)], None, [cls])
        if isinstance(spec, tuple) and spec[0] == 'set':
            return SymSet(UF('%s.%s' % (o.cls, attr), ObjS, z3.SetSort(spec[1]))(o.expr))
        if isinstance(spec, tuple) and spec[0] == 'obj':
            return Obj(UF('%s.%s' % (o.cls, attr), ObjS, ObjS)(o.expr), spec[1])
        return wrap(UF('%s.%s' % (o.cls, attr), ObjS, spec)(o.expr))

    def ex_Subscript(self, e, fr):
        o = self.eval(e.value, fr)
        if isinstance(e.slice, ast.Slice):
            lo = self.eval(e.slice.lower, fr) if e.slice.lower is not None else None
            hi = self.eval(e.slice.upper, fr) if e.slice.upper is not None else None
            if e.slice.step is not None:
                raise Unsupported('slice step')
            return self.slice(o, lo, hi, e)
        k = self.eval(e.slice, fr)
        return self.getitem(o, k, e)

    def slice(self, o, lo, hi, node):
        if isinstance(o, Untracked):
            return Untracked()
        if isinstance(o, (str, list, tuple)) and not is_sym(lo) and not is_sym(hi):
            return o[lo:hi]
        if (is_sym(o) and o.sort() == StrS) or isinstance(o, str):
            z = to_z3(o)
            n = z3.Length(z)

            def norm(i, default):
                if i is None:
                    return default
                if isinstance(i, int):
                    return z3.IntVal(i) if i >= 0 else z3.If(n + i < 0, 0, n + i)
                return z3.If(i >= 0, i, z3.If(n + i < 0, 0, n + i))
            a = norm(lo, z3.IntVal(0))
            b = norm(hi, n)
            return z3.SubString(z, a, z3.If(b - a < 0, 0, b - a))
        raise Unsupported('slice of %r' % (o,))

    def getitem(self, o, k, node):
        if isinstance(o, Poison):
            raise Unsupported('read of loop-havocked local %s' % o.name)
        if isinstance(o, dict):
            if is_sym(k) or isinstance(k, Obj):
                # a concrete dict indexed by a symbolic key: one path per key that can be equal to it, KeyError otherwise
                for key in list(o):
                    c = self.eq(k, key)
                    if c is False:
                        continue
                    if c is True or self.ctx.branch(to_z3(c), 'dictkey@%d' % getattr(node, 'lineno', 0)):
                        return o[key]
                self.raise_py('KeyError', node)
            if k not in o:
                self.raise_py('KeyError', node)
            return o[k]
        if isinstance(o, (list, tuple)):
            if isinstance(k, int):
                try:
                    return o[k]
                except IndexError:
                    self.raise_py('IndexError', node)
            raise Unsupported('symbolic index into concrete sequence')
        if isinstance(o, str) and isinstance(k, int):
            try:
                return o[k]
            except IndexError:
                self.raise_py('IndexError', node)
        if isinstance(o, SymSeq):
            n = o.length()
            zk = to_z3(k, IntS)
            inb = z3.And(zk >= -n, zk < n)
            if not self.ctx.branch(inb, 'index@%d' % node.lineno, prune=True):
                self.raise_py('IndexError', node)
            idx = z3.If(zk >= 0, zk, n + zk)
            return o.elem(z3.simplify(idx))
        if (is_sym(o) and o.sort() == StrS or isinstance(o, str)) and (isinstance(k, int) or (is_sym(k) and k.sort() == IntS)):
            # s[i] of a (symbolic) string: the one-character string at that position, counted from the end for a negative index; IndexError outside
            z = to_z3(o)
            n = z3.Length(z)
            zk = to_z3(k, IntS)
            inb = z3.And(zk >= -n, zk < n)
            if not self.ctx.branch(inb, 'index@%d' % node.lineno, prune=True):
                self.raise_py('IndexError', node)
            return z3.SubString(z, z3.If(zk >= 0, zk, n + zk), 1)
        if isinstance(o, Untracked) or isinstance(k, Untracked):
            return Untracked()
        if self.is_pydict(o):
            return self.pyany_op('dict[]', node, ['KeyError'])
        if self.is_pyany(o):
            return self.pyany_op('getitem', node)
        if isinstance(o, SymMap):
            zk = self.map_key(o, k)
            if not o.default:
                if not self.ctx.branch(z3.IsMember(zk, o.dom), 'key@%d' % node.lineno):
                    self.raise_py('KeyError', node)
            else:
                o.dom = z3.SetAdd(o.dom, zk)
            if None in o.fields:
                return self.map_load(o, k, None)
            return MapEntry(o, k)
        if isinstance(o, MapEntry):
            if not isinstance(k, str):
                raise Unsupported('record field must be constant')
            return self.map_entry_field(o, k, node)
        if isinstance(o, Obj) and (o.cls, '[]') in self.spec.field_sorts:
            fn = self.spec.field_sorts[(o.cls, '[]')]
            return fn(self, o, k, node)
        raise Unsupported('subscript of %r' % (o,))

    def map_entry_field(self, ent, field, node):
        return self.map_load(ent.m, ent.key, field)

    def ex_Lambda(self, e, fr):
        fn = ast.FunctionDef(name='<lambda>', args=e.args, body=[ast.Return(value=e.body)],
                             decorator_list=[], lineno=e.lineno, col_offset=e.col_offset,
                             end_lineno=e.end_lineno, end_col_offset=e.end_col_offset)
        ast.fix_missing_locations(fn)
        fi = extract.FunctionInfo(fr.fi.qualname + '.<lambda>', fr.fi.mod, fn)
        return Closure(fn, fr.env, fi)

    def ex_NamedExpr(self, e, fr):
        v = self.eval(e.value, fr)
        self.assign(e.target, v, fr)
        return v

    # comprehensions ----------------------------------------------------------
    def ex_ListComp(self, e, fr):
        return self.comprehension(e, fr, 'list')

    def ex_SetComp(self, e, fr):
        return self.comprehension(e, fr, 'set')

    def ex_GeneratorExp(self, e, fr):
        return self.comprehension(e, fr, 'list')     # consumed eagerly (pure element expressions)

    def ex_DictComp(self, e, fr):
        if len(e.generators) != 1:
            raise Unsupported('nested comprehension')
        g = e.generators[0]
        it = self.eval(g.iter, fr)
        if isinstance(it, Untracked):
            return Untracked()
        if (fr.fi.qualname, fr.loop_ordinals[id(e)]) in self.spec.abstract_comprehensions:
            return Untracked()
        if isinstance(it, MapItems) and it.mode == 'items' and not g.ifs and isinstance(g.target, ast.Tuple) \
                and len(g.target.elts) == 2 and all(isinstance(t, ast.Name) for t in g.target.elts) \
                and isinstance(e.key, ast.Name) and e.key.id == g.target.elts[0].id:
            vn = g.target.elts[1].id
            if (isinstance(e.value, ast.Name) and e.value.id == vn) or \
                    (isinstance(e.value, ast.Call) and ast.unparse(e.value) == 'dict(%s)' % vn):
                return it.m.copy()     # {k: dict(v) for k, v in m.items()} is a copy of m
        items = self.concrete_items(it) if not isinstance(it, dict) else list(it.keys())
        if items is None:
            raise Unsupported('dict comprehension over symbolic collection')
        out = {}
        inner = Frame(fr.fi, dict(fr.env))
        inner.loop_ordinals = fr.loop_ordinals
        for x in items:
            self.assign(g.target, x, inner)
            if all(self.ctx.branch(self.truthy(self.eval(c, inner)), 'compif@%d' % e.lineno) for c in g.ifs):
                k = self.eval(e.key, inner)
                if is_sym(k):
                    raise Unsupported('symbolic dict key')
                out[k] = self.eval(e.value, inner)
        return out

    def comprehension(self, e, fr, kind):
        if len(e.generators) != 1:
            raise Unsupported('nested comprehension at line %d' % e.lineno)
        g = e.generators[0]
        it = self.eval(g.iter, fr)
        if isinstance(it, Untracked):
            return Untracked()
        if (fr.fi.qualname, fr.loop_ordinals[id(e)]) in self.spec.abstract_comprehensions:
            return Untracked()
        if isinstance(it, MapItems) and it.mode == 'values' and kind == 'list' and not g.ifs \
                and isinstance(g.target, ast.Name):
            # (d['f'] for d in m.values())  ->  column view of field f
            el = e.elt
            if isinstance(el, ast.Subscript) and isinstance(el.value, ast.Name) and el.value.id == g.target.id \
                    and isinstance(el.slice, ast.Constant) and isinstance(el.slice.value, str):
                f = el.slice.value
                if f in it.m.fields:
                    return ('mapcolumn', it.m, f)
                return Untracked()
            if isinstance(el, ast.Call) and ast.unparse(el.func) == g.target.id + '.get' and el.args \
                    and isinstance(el.args[0], ast.Constant):
                f = el.args[0].value
                if f in it.m.fields:
                    return ('mapcolumn', it.m, f)
                return Untracked()
        inner = Frame(fr.fi, dict(fr.env))
        inner.loop_ordinals = fr.loop_ordinals
        items = self.concrete_items(it)
        if items is not None:
            out = [] if kind == 'list' else SymSet()
            for x in items:
                self.assign(g.target, x, inner)
                ok = True
                for c in g.ifs:
                    if not self.ctx.branch(self.truthy(self.eval(c, inner)), 'compif@%d' % e.lineno):
                        ok = False
                        break
                if ok:
                    v = self.eval(e.elt, inner)
                    if kind == 'list':
                        out.append(v)
                    else:
                        out.add(v)
            return out
        # symbolic source
        if isinstance(it, SymSeq):
            # column projection:  [r for r, _, _ in xs]
            if kind == 'list' and not g.ifs and isinstance(g.target, ast.Tuple) and isinstance(e.elt, ast.Name) \
                    and it.arity == len(g.target.elts):
                names = [t.id if isinstance(t, ast.Name) else None for t in g.target.elts]
                if e.elt.id in names and names.count(e.elt.id) == 1:
                    j = names.index(e.elt.id)
                    return SymSeq([it.cols[j]], None, [it.classes[j]])
            if kind == 'list' and not g.ifs and isinstance(g.target, ast.Name) and isinstance(e.elt, ast.Name) \
                    and e.elt.id == g.target.id:
                return it.copy()
            # (s.name == x for s in sections), x not about s - consumed by any(): the same question as `x in [s.name for s in sections]`
            if kind == 'list' and not g.ifs and isinstance(g.target, ast.Name) and it.keys and isinstance(e.elt, ast.Compare) \
                    and len(e.elt.ops) == 1 and isinstance(e.elt.ops[0], ast.Eq):
                def _proj(n_):
                    return isinstance(n_, ast.Attribute) and isinstance(n_.value, ast.Name) and n_.value.id == g.target.id and n_.attr in it.keys

                def _free(n_):
                    return not any(isinstance(x_, ast.Name) and x_.id == g.target.id for x_ in ast.walk(n_))
                for a_, b_ in ((e.elt.left, e.elt.comparators[0]), (e.elt.comparators[0], e.elt.left)):
                    if _proj(a_) and _free(b_):
                        return EqToEach(SymSeq([it.cols[it.keys.index(a_.attr)]]), self.eval(b_, fr))
            # field projection over a sequence of records kept as columns:  [s.name for s in sections]
            if kind == 'list' and not g.ifs and isinstance(g.target, ast.Name) and isinstance(e.elt, ast.Attribute) \
                    and isinstance(e.elt.value, ast.Name) and e.elt.value.id == g.target.id and it.keys and e.elt.attr in it.keys:
                j = it.keys.index(e.elt.attr)
                return SymSeq([it.cols[j]])
        ordinal = fr.loop_ordinals[id(e)]
        lspec = self.spec.loops.get((fr.fi.qualname, ordinal))
        if lspec is None and isinstance(it, (SymMap, MapItems)):
            return Untracked()       # text built from the keys of a symbolic dict (messages only)
        if lspec is None and kind == 'list' and isinstance(it, SymSeq) and it.keys is None:
            # no contract: if the element expression and the conditions are pure on an arbitrary element (checked speculatively), the result is an
            # unknown list of the element sort whose length is that of the source (no conditions) or at most that (conditions) - sound abstraction
            k = self.ctx.fresh('k_comp', IntS)

            def body():
                self.assign(g.target, it.elem(k), inner)
                for c in g.ifs:
                    self.truthy(self.eval(c, inner))
                return self.eval(e.elt, inner)
            ok, v = self.speculate(z3.And(k >= 0, k < it.length()), body)
            if ok and (is_sym(v) or isinstance(v, (str, int, float, bool))):
                zv = to_z3(v)
                out = SymSeq([self.ctx.fresh('comp', z3.SeqSort(zv.sort()))])
                n_out, n_in = out.length(), it.length()
                self.ctx.assume(n_out == n_in if not g.ifs else z3.And(n_out >= 0, n_out <= n_in))
                return out
        if lspec is None:
            raise Unsupported('comprehension %d of %s (line %d) over a symbolic collection has no contract'
                              % (ordinal, fr.fi.qualname, e.lineno))
        # desugar:  acc = [] / set();  for target in it: if ifs: acc.append/add(elt)
        acc_name = '$acc%d' % ordinal
        fr.env[acc_name] = [] if kind == 'list' else SymSet()

        def bind(x):
            self.assign(g.target, x, fr)

        def body():
            for c in g.ifs:
                if not self.ctx.branch(self.truthy(self.eval(c, fr)), 'compif@%d' % e.lineno):
                    return
            v = self.eval(e.elt, fr)
            acc = fr.env[acc_name]
            if isinstance(acc, list):
                acc.append(v)
            else:
                acc.add(v) if isinstance(acc, SymSet) else acc.append(v)
        saved = {}
        tn, _ = assigned_and_mutated([ast.Assign(targets=[g.target], value=ast.Constant(0))])
        for nme in tn:
            saved[nme] = fr.env.get(nme, _MISSING)
        self.cut_loop(e, fr, it, ordinal, lspec, bind, body, frame_nodes=[g.target] + g.ifs + [e.elt])
        for nme, v in saved.items():     # comprehension variables do not leak
            if v is _MISSING:
                fr.env.pop(nme, None)
            else:
                fr.env[nme] = v
        return fr.env.pop(acc_name)

    # calls -------------------------------------------------------------------
    def truth_expr(self, node, fr):
        """truthiness of an expression as one formula (pure context): and/or/not are taken apart structurally, so operands need not be Booleans"""
        if isinstance(node, ast.BoolOp):
            is_and = isinstance(node.op, ast.And)
            vals, acc = [], []
            for sub in node.values:
                self.ctx.assumptions.extend(acc)
                try:
                    t = to_z3(self.truth_expr(sub, fr))
                finally:
                    for _ in acc:
                        self.ctx.assumptions.pop()
                vals.append(t)
                acc.append(t if is_and else z3.Not(t))
            return z3.And(*vals) if is_and else z3.Or(*vals)
        if isinstance(node, ast.UnaryOp) and isinstance(node.op, ast.Not):
            return z3.Not(to_z3(self.truth_expr(node.operand, fr)))
        t = self.truthy(self.eval(node, fr))
        if isinstance(t, Untracked):
            raise Impure()
        return t

    def any_all_genexp(self, e, fr, is_all):
        """any/all(<elt> for x in <symbolic sequence> if <conds>) when no loop contract covers the generator: if <elt> and <conds> are pure on an
        arbitrary element (no side effect, cannot raise: checked by evaluating them speculatively), the result is an unknown Boolean that is
        False (any) / True (all) for an empty sequence.  Sound abstraction: nothing is assumed about the elements."""
        ge = e.args[0]
        g = ge.generators[0]
        ordinal = fr.loop_ordinals.get(id(ge))
        if (fr.fi.qualname, ordinal) in self.spec.loops or (fr.fi.qualname, ordinal) in self.spec.abstract_comprehensions:
            return _MISSING
        it = self.eval(g.iter, fr)
        if not (isinstance(it, SymSeq) and it.keys is None):
            return _MISSING
        k = self.ctx.fresh('k_anyall', IntS)
        inner = Frame(fr.fi, dict(fr.env))
        inner.loop_ordinals = fr.loop_ordinals

        def body():
            self.assign(g.target, it.elem(k), inner)
            for c in g.ifs:
                self.truth_expr(c, inner)
            return self.truth_expr(ge.elt, inner)
        ok, _ = self.speculate(z3.And(k >= 0, k < it.length()), body)
        if not ok:
            return _MISSING
        r = self.ctx.fresh('any_all', BoolS)
        self.ctx.assume(z3.Implies(it.length() == 0, r == z3.BoolVal(bool(is_all))))
        return r

    def sum_genexp(self, e, fr):
        """sum(<elt> for x in <concrete items> if <conds>) without forking: sum of If(conds, elt, 0)."""
        g = e.args[0].generators[0]
        it = self.eval(g.iter, fr)
        items = self.concrete_items(it)
        if items is None:
            return _MISSING
        inner = Frame(fr.fi, dict(fr.env))
        inner.loop_ordinals = fr.loop_ordinals
        total = 0
        for x in items:
            self.assign(g.target, x, inner)
            conds = [self.truthy(self.eval(c, inner)) for c in g.ifs]
            v = self.eval(e.args[0].elt, inner)
            if any(c is False for c in conds):
                continue
            sym = [to_z3(c) for c in conds if c is not True]
            if sym:
                zv = to_z3(v)
                if zv.sort() not in (IntS, RealS):
                    return _MISSING
                v = z3.If(z3.And(*sym), zv, z3.IntVal(0) if zv.sort() == IntS else z3.RealVal(0))
            total = self.binop(ast.Add(), total, v, e)
        return total

    def ex_Call(self, e, fr):
        text = ast.unparse(e.func)
        if text == 'sum' and len(e.args) == 1 and not e.keywords and isinstance(e.args[0], ast.GeneratorExp) \
                and len(e.args[0].generators) == 1 and 'sum' not in self.spec.models and 'sum' not in fr.env:
            r = self.sum_genexp(e, fr)
            if r is not _MISSING:
                return r
        if text in ('any', 'all') and len(e.args) == 1 and not e.keywords and isinstance(e.args[0], ast.GeneratorExp) and len(e.args[0].generators) == 1 \
                and text not in self.spec.models and text not in fr.env:
            r = self.any_all_genexp(e, fr, text == 'all')
            if r is not _MISSING:
                return r
        args = []
        for a in e.args:
            if isinstance(a, ast.Starred):
                v = self.eval(a.value, fr)
                if not isinstance(v, (list, tuple)):
                    raise Unsupported('*args of symbolic length')
                args.extend(v)
            else:
                args.append(self.eval(a, fr))
        kwargs = {}
        for k in e.keywords:
            if k.arg is None:
                v = self.eval(k.value, fr)
                if not isinstance(v, dict):
                    raise Unsupported('**kwargs of symbolic shape')
                kwargs.update(v)
            else:
                kwargs[k.arg] = self.eval(k.value, fr)
        if self.spec.on_call:
            self.spec.on_call(self, fr, e, text, args, kwargs)
        if text in self.spec.models:
            return self.spec.models[text].fn(self, args, kwargs, e)
        f = self.eval(e.func, fr)
        return self.apply(f, args, kwargs, e, fr, text)

    def apply(self, f, args, kwargs, node, fr, text=''):
        if isinstance(f, Func):
            if f.name in BUILTINS and f.name != 'print' and \
                    any(isinstance(a, Untracked) for a in list(args) + list(kwargs.values())):
                return Untracked()
            return f.fn(self, args, kwargs, node)
        if isinstance(f, Untracked):
            return Untracked()
        if self.is_pyany(f):
            return self.pyany_op('call', node, ANY_CALL_ERRORS)
        if isinstance(f, Closure):
            q = f.fi.qualname
            if q in self.spec.models:
                return self.spec.models[q].fn(self, args, kwargs, node)
            if f.env or q in self.spec.inline or '<lambda>' in q or '<locals>' in q or self._small_helper(f.fi.node, q):
                return self.call_function(f.fi, args, kwargs, closure_env=f.env)
            raise Unsupported('call of %s: no contract and not marked inline' % q)
        if isinstance(f, ClassRef):
            q = '%s.%s' % (f.modname, f.name)
            if q in self.spec.models:
                return self.spec.models[q].fn(self, args, kwargs, node)
            if f.node is not None and _is_dataclass(f.node):
                return self.construct_dataclass(f, args, kwargs, node)
            raise Unsupported('constructor %s' % q)
        if isinstance(f, tuple) and f and f[0] == 'boundmethod':
            _, o, cls, mnode = f
            q = '%s.%s.%s' % (cls.modname, cls.name, mnode.name)
            if q in self.spec.models:
                return self.spec.models[q].fn(self, [o] + args, kwargs, node)
            if q in self.spec.inline or self._small_helper(mnode, q):
                fi = extract.FunctionInfo(q, extract.module(cls.modname), mnode, cls.node)
                if any(isinstance(d, ast.Name) and d.id == 'staticmethod' for d in mnode.decorator_list):
                    return self.call_function(fi, args, kwargs)
                return self.call_function(fi, args, kwargs, self_obj=o)
            raise Unsupported('method %s: no contract and not marked inline' % q)
        if isinstance(f, tuple) and f and f[0] == 'boundattr':
            _, o, attr = f
            return self.method(o, attr, args, kwargs, node)
        raise Unsupported('call of %r (%s)' % (f, text))

    def _small_helper(self, fnode, q):
        """A package function / method that has no contract is executed (its real body) when it is a small, non-recursive helper: extracting a few
        lines into a helper is the commonest harmless refactoring and must not leave the proof undecided.  Executing the real code is always sound;
        the size and depth limits only keep the analysis tractable (beyond them: Unsupported, i.e. UNDECIDED)."""
        if self.depth > 6 or any(fr.fi.qualname == q for fr in self.frames):
            return False
        size = sum(1 for _ in ast.walk(fnode))
        if size > 450:
            return False
        return not any(isinstance(n, (ast.Yield, ast.YieldFrom, ast.Global, ast.Nonlocal)) for n in ast.walk(fnode))

    def construct_dataclass(self, cref, args, kwargs, node):
        fields, methods, props = extract.class_members(cref.node)
        vals = {}
        names = list(fields)
        mod = extract.module(cref.modname)
        fi0 = extract.FunctionInfo(cref.modname + '.<module>', mod, _fake_fn(cref.node))
        for i, a in enumerate(args):
            vals[names[i]] = a
        for k, v in kwargs.items():
            if k not in fields:
                self.raise_py('TypeError', node)
            vals[k] = v
        for nme, (ann, default) in fields.items():
            if nme in vals:
                continue
            if default is None:
                self.raise_py('TypeError', node)
            if isinstance(default, ast.Call) and ast.unparse(default.func) == 'field':
                kw = {k.arg: k.value for k in default.keywords}
                if 'default_factory' in kw:
                    fac = ast.unparse(kw['default_factory'])
                    vals[nme] = {'set': SymSet, 'list': list, 'dict': dict}.get(fac, lambda: None)()
                    if fac not in ('set', 'list', 'dict'):
                        raise Unsupported('default_factory %s' % fac)
                elif 'default' in kw:
                    vals[nme] = self.eval_in(kw['default'], fi0, {})
                else:
                    raise Unsupported('field() without default')
            else:
                vals[nme] = self.eval_in(default, fi0, {})
        r = Rec(cref.name, vals)
        if '__post_init__' in methods:
            fi = extract.FunctionInfo('%s.%s.__post_init__' % (cref.modname, cref.name), mod, methods['__post_init__'], cref.node)
            self.call_function(fi, [], {}, self_obj=r)
        return r

    # methods on builtin kinds --------------------------------------------------
    def method(self, o, attr, args, kwargs, node):
        if isinstance(o, Poison):
            raise Unsupported('read of loop-havocked local %s' % o.name)
        if isinstance(o, Untracked):
            return None if attr in MUTATORS else Untracked()
        if self.is_pydict(o):
            if attr == 'get':
                return Obj(self.ctx.fresh('any', ObjS), 'pyany')
            if attr in ('setdefault', 'update', 'pop', 'clear'):
                return Obj(self.ctx.fresh('any', ObjS), 'pyany') if attr != 'update' else None
            raise Unsupported('dict method .%s on an abstract dict' % attr)
        if self.is_pyany(o):
            return self.pyany_op('method.' + attr, node)
        if isinstance(o, SymMap):
            if attr in ('items', 'values', 'keys') and not args:
                return MapItems(o, attr)
            if attr == 'get' and None in o.fields and args:
                if o.ksort is None:
                    return args[1] if len(args) > 1 else None
                zk = self.map_key(o, args[0])
                val = wrap(z3.Select(o.fields[None], zk))
                if len(args) == 1 or args[1] is None:
                    some = z3.IsMember(zk, o.dom)
                    if getattr(o, 'may_hold_none', None) is not None:
                        # the contract says this dict may hold None as a VALUE: d.get(k) is None also for a key that is present with the value None
                        some = z3.And(some, z3.Not(o.may_hold_none(z3.Select(o.fields[None], zk))))
                    return SymOpt(some, val)
                m = self.merge_values(z3.IsMember(zk, o.dom), val, args[1])
                if m is _MISSING:
                    raise Unsupported('dict.get default of a different type')
                return m
            if attr == 'copy':
                return o.copy()
            if attr == 'pop' and None in o.fields and 1 <= len(args) <= 2 and o.ksort is not None:
                zk = self.map_key(o, args[0])
                was, val = z3.IsMember(zk, o.dom), wrap(z3.Select(o.fields[None], zk))
                if len(args) == 1 and not self.ctx.branch(was, 'pop.present@%d' % getattr(node, 'lineno', 0)):
                    self.raise_py('KeyError', node)
                o.dom = z3.SetDel(o.dom, zk)
                return SymOpt(was, val) if len(args) == 1 or args[1] is None else Untracked()
        if isinstance(o, MapEntry):
            if attr == 'get' and args and isinstance(args[0], str):
                if args[0] in o.m.fields:
                    return self.map_load(o.m, o.key, args[0])
                return Untracked()
            if attr == 'pop' and args and isinstance(args[0], str) and args[0] not in o.m.fields:
                return Untracked()          # removing a record field the contract does not track: nothing tracked changes
        if isinstance(o, list):
            if attr == 'append' and len(args) == 1:
                o.append(args[0])
                return None
            if attr == 'extend' and len(args) == 1 and isinstance(args[0], (list, tuple)):
                o.extend(args[0])
                return None
            if attr == 'extend' and len(args) == 1 and isinstance(args[0], Untracked):
                o.append(Untracked())          # unknown further elements (the list is only good for messages from here on: join gives Untracked)
                return None
            if attr == 'copy':
                return list(o)
        if isinstance(o, (SymSeq, list)) and attr == 'extend' and len(args) == 1 and isinstance(args[0], Obj):
            # list.extend(<opaque list value>): the list is viewed as a sequence of batches (abstraction used for
            # "concatenation of per-source results"); the batch object is appended as one element
            o.append(args[0])
            return None
        if isinstance(o, SymSeq) and getattr(o, 'file_like', False) and attr == 'read' and not args:
            return self.ctx.fresh('file_content', StrS)      # a text file opened for reading: lines (iteration) or whole content
        if isinstance(o, SymSeq):
            if attr == 'append' and len(args) == 1:
                o.append(args[0])
                return None
            if attr == 'extend' and len(args) == 1 and isinstance(args[0], (list, tuple)):
                for x in args[0]:
                    o.append(x)
                return None
            if attr == 'extend' and len(args) == 1 and isinstance(args[0], SymSeq) and len(args[0].cols) == len(o.cols) and o.keys == args[0].keys:
                for j in range(len(o.cols)):
                    o.cols[j] = z3.Concat(o.cols[j], args[0].cols[j])
                return None
            if attr == 'copy':
                return o.copy()
        if isinstance(o, SymSet):
            if attr == 'add' and len(args) == 1:
                o.add(args[0])
                return None
            if attr == 'copy':
                return o.copy()
            if attr == 'isdisjoint' and len(args) == 1:
                a = args[0]
                if o.expr is None or (isinstance(a, (list, tuple)) and not a):
                    return True
                if isinstance(a, SymSet):
                    if a.expr is None:
                        return True
                    return z3.SetIntersect(o.expr, a.expr) == z3.EmptySet(o.expr.sort().domain())
                if isinstance(a, (list, tuple)):
                    return z3.And(*[z3.Not(to_z3(o.contains(x))) for x in a])
                if isinstance(a, SymSeq) and a.arity is None and a.keys is None:
                    elems = _set_elements(o.expr)
                    if elems is not None:
                        # a set of known elements against a list of unknown length: none of the elements occurs in the list
                        return z3.And(*[z3.Not(z3.Contains(a.cols[0], z3.Unit(c))) for c in elems]) if elems else True
                raise Unsupported('isdisjoint of a symbolic set and %r' % (a,))
            if attr == 'update' and len(args) == 1:
                a = args[0]
                if isinstance(a, SymSet):
                    if a.expr is not None:
                        o.resolve(a.expr.sort().domain())
                        o.expr = z3.SetUnion(o.expr, a.expr)
                    return None
                if isinstance(a, (list, tuple)):
                    for x in a:
                        o.add(x)
                    return None
        if isinstance(o, dict):
            if attr == 'get':
                k = args[0]
                if is_sym(k):
                    raise Unsupported('symbolic key')
                default = args[1] if len(args) > 1 else kwargs.get('default')
                return o.get(k, default)
            if attr == 'items':
                return [(k, v) for k, v in o.items()]
            if attr == 'keys':
                return list(o.keys())
            if attr == 'values':
                return list(o.values())
            if attr == 'copy':
                return dict(o)
            if attr == 'update' and len(args) == 1 and isinstance(args[0], dict):
                o.update(args[0])
                return None
            if attr == 'setdefault':
                return o.setdefault(args[0], args[1] if len(args) > 1 else None)
        if isinstance(o, str) and attr == 'format' and not args:
            return self.str_format(o, kwargs, node)
        if isinstance(o, str) and attr == 'join' and len(args) == 1:
            a = args[0]
            if isinstance(a, (list, tuple)) and all(isinstance(x, str) for x in a):
                return o.join(a)
            if isinstance(a, (list, tuple)) and a and all(isinstance(x, str) or (is_sym(x) and x.sort() == StrS) for x in a):
                out = to_z3(a[0], StrS)
                for x in a[1:]:
                    out = z3.Concat(out, z3.StringVal(o), to_z3(x, StrS))
                return out
            if isinstance(a, SymSeq) and a.arity is None and a.keys is None and a.cols[0].sort() == z3.SeqSort(StrS):
                return UF('str.join', StrS, z3.SeqSort(StrS), StrS)(z3.StringVal(o), a.cols[0])
            return Untracked()
        if isinstance(o, str) and all(isinstance(a, (str, int)) for a in args) and attr in STR_METHODS_CONCRETE:
            return getattr(o, attr)(*args)
        if (is_sym(o) and o.sort() == StrS) or isinstance(o, str):
            return self.str_method(to_z3(o), attr, args, node)
        key = (type(o).__name__ if not isinstance(o, Obj) else 'Obj:%s' % o.cls, attr)
        h = self.spec.models.get('method:%s.%s' % key)
        if h is None and isinstance(o, Obj):
            h = self.spec.models.get('method:Obj:*.%s' % attr)
        if h is not None:
            return h.fn(self, [o] + list(args), kwargs, node)
        if o is None:
            self.raise_py('AttributeError', node)           # CPython: 'NoneType' object has no attribute ...
        raise Unsupported('method .%s on %r' % (attr, o))

    def str_format(self, template, kwargs, node):
        """'...{name}...'.format(**kwargs) for a concrete template with plain {name} fields."""
        import string
        out = None
        try:
            parts = list(string.Formatter().parse(template))
        except ValueError:
            self.raise_py('ValueError', node)
        for lit, fld, spec, conv in parts:
            pieces = [lit] if lit else []
            if fld is not None:
                if fld == '' or not fld.isidentifier() or spec or conv:
                    raise Unsupported('format field {%s}' % fld)
                if fld not in kwargs:
                    self.raise_py('KeyError', node)
                pieces.append(self.to_str(kwargs[fld]))
            for pc in pieces:
                z = to_z3(pc, StrS)
                out = z if out is None else z3.Concat(out, z)
        return out if out is not None else ''

    def str_method(self, z, attr, args, node):
        if attr == 'split' and not args:
            return SymSeq([UF('str.split_ws', StrS, z3.SeqSort(StrS))(z)])
        if any(isinstance(a, Untracked) for a in args):
            return Untracked()
        if attr == 'split' and len(args) == 1:
            return SymSeq([UF('str.split', StrS, StrS, z3.SeqSort(StrS))(z, to_z3(args[0], StrS))])
        if attr in ('lower', 'upper', 'strip', 'lstrip', 'rstrip', 'title', 'casefold') and not args:
            return UF('str.' + attr, StrS, StrS)(z)
        if attr == 'startswith' and len(args) == 1:
            a = args[0]
            if isinstance(a, tuple):
                return z3.Or(*[z3.PrefixOf(to_z3(x), z) for x in a])
            return z3.PrefixOf(to_z3(a, StrS), z)
        if attr == 'endswith' and len(args) == 1:
            a = args[0]
            if isinstance(a, tuple):
                return z3.Or(*[z3.SuffixOf(to_z3(x), z) for x in a])
            return z3.SuffixOf(to_z3(a, StrS), z)
        if attr == 'replace' and len(args) == 2:
            return UF('py.str.replace', StrS, StrS, StrS, StrS)(z, to_z3(args[0], StrS), to_z3(args[1], StrS))
        if attr == 'count' and len(args) == 1:
            return UF('str.count', StrS, StrS, IntS)(z, to_z3(args[0], StrS))
        if attr == 'find' and len(args) == 1:
            return z3.IndexOf(z, to_z3(args[0], StrS), 0)
        h = self.spec.models.get('method:str.' + attr)       # a contract-supplied model of a string method the engine has no reading of (isprintable, encode ...)
        if h is not None:
            return h.fn(self, [z] + list(args), {}, node)
        raise Unsupported('str method .%s' % attr)


_MISSING = object()


def _set_elements(expr):
    """elements of a z3 set term built by SetAdd on the empty set (a set display of constants / symbols); None if it has another shape"""
    out = []
    e = expr
    for _ in range(64):
        if z3.is_store(e) and z3.is_true(e.arg(2)):
            out.append(e.arg(1))
            e = e.arg(0)
        elif z3.is_const_array(e) and z3.is_false(e.arg(0)):
            return out
        else:
            return None
    return None
ANY_CALL_ERRORS = ['TypeError', 'AttributeError', 'KeyError', 'IndexError', 'ValueError', 'ZeroDivisionError', 'StopIteration',
                   'RuntimeError', 're.error', 'OverflowError', 'ExpressionError', 'Exception']

STR_METHODS_CONCRETE = {'lower', 'upper', 'strip', 'lstrip', 'rstrip', 'startswith', 'endswith',
                        'replace', 'title', 'split', 'count', 'find', 'join', 'isdigit', 'casefold'}


def _fake_fn(node):
    fn = ast.FunctionDef(name='<module>', args=ast.arguments(posonlyargs=[], args=[], kwonlyargs=[],
                         kw_defaults=[], defaults=[]), body=[ast.Pass()], decorator_list=[],
                         lineno=getattr(node, 'lineno', 1), col_offset=0,
                         end_lineno=getattr(node, 'end_lineno', 1), end_col_offset=0)
    return fn


def _is_dataclass(clsnode):
    return any(ast.unparse(d).split('(')[0] in ('dataclass', 'dataclasses.dataclass') for d in clsnode.decorator_list)


def _sort_from_annotation(ann):
    t = ast.unparse(ann)
    return {'str': StrS, 'int': IntS, 'float': RealS, 'bool': BoolS,
            'Set[str]': ('set', StrS), 'List[str]': ('seq', StrS, None)}.get(t, ObjS)


def _concrete_binop(op, a, b):
    import operator
    table = {ast.Add: operator.add, ast.Sub: operator.sub, ast.Mult: operator.mul,
             ast.Div: operator.truediv, ast.FloorDiv: operator.floordiv, ast.Mod: operator.mod,
             ast.Pow: operator.pow, ast.BitAnd: operator.and_, ast.BitOr: operator.or_}
    f = table.get(type(op))
    if f is None:
        raise Unsupported('operator %s' % type(op).__name__)
    return f(a, b)


def _concrete_cmp(op, a, b):
    import operator
    table = {ast.Lt: operator.lt, ast.LtE: operator.le, ast.Gt: operator.gt, ast.GtE: operator.ge}
    return table[type(op)](a, b)


# ---------------------------------------------------------------------------- builtins

def _b_len(I, args, kwargs, node):
    (v,) = args
    if isinstance(v, (list, tuple, dict, str, set, frozenset)):
        return len(v)
    if isinstance(v, SymSeq):
        return v.length()
    if is_sym(v) and (v.sort() == StrS or z3.is_seq(v)):
        return z3.Length(v)
    if isinstance(v, (SymSet, SymMap)):
        # cardinality: an uninterpreted non-negative number that is 0 exactly for the empty set
        st = v.expr if isinstance(v, SymSet) else v.dom
        if st is None:
            return 0
        card = UF('card[%s]' % st.sort(), st.sort(), IntS)(st)
        if I.ctx.pure:
            raise Unsupported('len() of a symbolic set inside a speculative evaluation')
        I.ctx.assume(card >= 0)
        I.ctx.assume((card == 0) == (st == z3.EmptySet(st.sort().domain())))
        return card
    if isinstance(v, Obj) and (v.cls, 'len') in I.spec.field_sorts:
        return I.spec.field_sorts[(v.cls, 'len')](I, v, node)
    raise Unsupported('len of %r' % (v,))


def _b_abs(I, args, kwargs, node):
    (v,) = args
    if isinstance(v, (int, float)):
        return abs(v)
    if is_sym(v) and v.sort() in (IntS, RealS):
        return z3.If(v >= 0, v, -v)
    if is_sym(v) and v.sort() == BoolS:
        return z3.If(v, 1, 0)
    I.raise_py('TypeError', node)


def _b_bool(I, args, kwargs, node):
    if not args:
        return False
    return I.truthy(args[0])


def _b_set(I, args, kwargs, node):
    if not args:
        return SymSet()
    v = args[0]
    if isinstance(v, SymSet):
        return v.copy()
    if isinstance(v, (list, tuple, set, frozenset)):
        s = SymSet()
        for x in v:
            s.add(x)
        return s
    if isinstance(v, SymSeq) and v.arity is None:
        sort = v.cols[0].sort().basis()
        return SymSet(UF('set_of_seq[%s]' % sort, v.cols[0].sort(), z3.SetSort(sort))(v.cols[0]))
    if isinstance(v, MapItems) and v.mode == 'keys':
        return SymSet(v.m.dom) if v.m.ksort is not None else SymSet()
    raise Unsupported('set(%r)' % (v,))


def _b_list(I, args, kwargs, node):
    if not args:
        return []
    v = args[0]
    if isinstance(v, (list, tuple)):
        return list(v)
    if isinstance(v, SymSeq):
        return v.copy()
    if isinstance(v, dict):
        return list(v.keys())
    if I.is_pyany(v):
        # list() of a value of unknown type runs its iterator: arbitrary code of the value
        return I.pyany_op('list', node, ANY_CALL_ERRORS)
    raise Unsupported('list(%r)' % (v,))


class SymIter:
    """iter(x): an iterator over a tracked collection, at its first element"""

    def __init__(self, src):
        self.src, self.pos = src, 0


def _b_iter(I, args, kwargs, node):
    if isinstance(args[0], Untracked) or I.is_pyany(args[0]):
        return Untracked()
    return SymIter(args[0])


def _b_next(I, args, kwargs, node):
    it = args[0]
    if isinstance(it, Untracked):
        return Untracked()
    if not isinstance(it, SymIter):
        raise Unsupported('next(%r)' % (it,))

    def exhausted():
        if len(args) > 1:
            return args[1]
        I.raise_py('StopIteration', node)
    src = it.src
    if isinstance(src, (list, tuple, dict)):
        items = list(src)
        if it.pos >= len(items):
            return exhausted()
        it.pos += 1
        return items[it.pos - 1]
    if isinstance(src, SymMap) and it.pos == 0:
        # the first key of a dict: some key of it (which one is the insertion order, which the contract does not track)
        if src.ksort is None or I.ctx.branch(src.dom == z3.EmptySet(src.ksort), 'next.of_empty@%d' % getattr(node, 'lineno', 0)):
            return exhausted()
        k = I.fresh('first_key', src.ksort)
        I.ctx.assume(z3.IsMember(k, src.dom))
        it.pos = 1
        return k
    if isinstance(src, SymSeq) and it.pos == 0:
        if I.ctx.branch(src.length() == 0, 'next.of_empty@%d' % getattr(node, 'lineno', 0)):
            return exhausted()
        it.pos = 1
        return src.elem(z3.IntVal(0))
    raise Unsupported('next() on an iterator over %r at position %d' % (src, it.pos))


def _b_dict(I, args, kwargs, node):
    if not args:
        return dict(kwargs)
    if isinstance(args[0], SymMap) and not kwargs:
        return args[0].copy()
    if isinstance(args[0], dict):
        d = dict(args[0])
        d.update(kwargs)
        return d
    raise Unsupported('dict(%r)' % (args[0],))


def _b_print(I, args, kwargs, node):
    return None


def _b_isinstance(I, args, kwargs, node):
    v, t = args
    names = []
    for x in (t if isinstance(t, tuple) else (t,)):
        if isinstance(x, Func):
            names.append(x.name)
        elif isinstance(x, ClassRef):
            names.append(x.name)
        elif isinstance(x, ModuleRef):
            names.append(x.name.split('.')[-1])
        else:
            raise Unsupported('isinstance against %r' % (x,))
    def one(nm):
        if nm == 'list':
            if isinstance(v, (list, SymSeq)):
                return True
        if nm == 'str':
            if isinstance(v, str) or (is_sym(v) and v.sort() == StrS):
                return True
        if nm == 'dict' and isinstance(v, dict):
            return True
        if nm == 'tuple' and isinstance(v, tuple):
            return True
        if nm == 'set' and isinstance(v, SymSet):
            return True
        if nm == 'bool':
            return isinstance(v, bool) or (is_sym(v) and v.sort() == BoolS)
        if nm == 'int':
            return (isinstance(v, int)) or (is_sym(v) and v.sort() in (IntS, BoolS))
        if nm == 'float':
            return isinstance(v, float) or (is_sym(v) and v.sort() == RealS)
        if isinstance(v, Rec):
            return v.cls == nm
        if isinstance(v, Obj):
            if v.cls == nm:
                return True
            return UF('isinstance_' + nm, ObjS, BoolS)(v.expr)
        return False
    rs = [one(n) for n in names]
    if any(r is True for r in rs):
        return True
    sym = [r for r in rs if not isinstance(r, bool)]
    if sym:
        return z3.Or(*sym)
    return False


def _b_str(I, args, kwargs, node):
    if not args:
        return ''
    return I.to_str(args[0])


def _b_tuple(I, args, kwargs, node):
    if not args:
        return ()
    if isinstance(args[0], (list, tuple)):
        return tuple(args[0])
    raise Unsupported('tuple(%r)' % (args[0],))


def _b_enumerate(I, args, kwargs, node):
    v = args[0]
    start = args[1] if len(args) > 1 else kwargs.get('start', 0)
    items = I.concrete_items(v)
    if items is None:
        if isinstance(v, SymSeq):
            return Enumerated(v, start)
        if is_sym(v) and v.sort() == StrS:
            return Enumerated(I.chars_of(v), start)
        raise Unsupported('enumerate over symbolic collection')
    return [(start + i, x) for i, x in enumerate(items)]


def _b_zip(I, args, kwargs, node):
    lists = [I.concrete_items(a) for a in args]
    if any(x is None for x in lists):
        raise Unsupported('zip over symbolic collection')
    return list(zip(*lists))


def _b_range(I, args, kwargs, node):
    if all(isinstance(a, int) for a in args):
        return list(range(*args))
    raise Unsupported('symbolic range')


def _b_defaultdict(I, args, kwargs, node):
    """collections.defaultdict(factory): numeric defaults become tracked (Real) arrays, every other
    field of a record default is abstracted (Untracked)."""
    if len(args) != 1:
        raise Unsupported('defaultdict arity')
    fac = args[0]
    if isinstance(fac, Func) and fac.name in ('float', 'int'):
        return SymMap(None, {}, default=True, pending={None: (RealS, z3.RealVal(0))})
    if isinstance(fac, Closure):
        d = I.call_function(fac.fi, [], {}, closure_env=fac.env)
        if isinstance(d, dict) and all(isinstance(k, str) for k in d):
            pend, untracked = {}, set()
            for k, v in d.items():
                if isinstance(v, (int, float)) and not isinstance(v, bool):
                    pend[k] = (RealS, z3.RealVal(repr(float(v))))
                else:
                    untracked.add(k)
            return SymMap(None, {}, default=True, untracked=untracked, pending=pend)
    raise Unsupported('defaultdict factory %r' % (fac,))


def _b_round(I, args, kwargs, node):
    raise Unsupported('round of tracked value')


def _b_sum(I, args, kwargs, node):
    v = args[0]
    start = args[1] if len(args) > 1 else 0
    if isinstance(v, tuple) and v and v[0] == 'mapcolumn':
        _, m, f = v
        if m.ksort is None:
            return start
        arr = m.fields[f]
        if arr.range() != RealS:
            raise Unsupported('sum over non-real map column')
        return UF('MapSum[%s]' % arr.sort(), arr.sort(), RealS)(arr) + to_z3(start, RealS)
    if isinstance(v, (list, tuple)):
        acc = start
        for x in v:
            acc = I.binop(ast.Add(), acc, x, node)
        return acc
    raise Unsupported('sum over symbolic collection')


def _b_sorted(I, args, kwargs, node):
    v = args[0]
    if isinstance(v, (list, tuple)) and all(isinstance(x, (int, float, str)) for x in v) and not kwargs:
        return sorted(v)
    raise Unsupported('sorted')


def _b_float(I, args, kwargs, node):
    (v,) = args
    if isinstance(v, (int, float)):
        return float(v)
    if is_sym(v) and v.sort() == IntS:
        return z3.ToReal(v)
    if is_sym(v) and v.sort() == RealS:
        return v
    raise Unsupported('float(%r)' % (v,))


def _b_int(I, args, kwargs, node):
    (v,) = args
    if isinstance(v, (int, bool)):
        return int(v)
    if is_sym(v) and v.sort() == IntS:
        return v
    if is_sym(v) and v.sort() == BoolS:
        return z3.If(v, 1, 0)
    raise Unsupported('int(%r)' % (v,))


def _b_max(I, args, kwargs, node, is_min=False):
    vals = list(args[0]) if len(args) == 1 and isinstance(args[0], (list, tuple)) else list(args)
    if len(args) == 1 and not isinstance(args[0], (list, tuple)):
        raise Unsupported('max/min over a symbolic collection')
    if kwargs:
        raise Unsupported('max/min with key')
    if not vals:
        I.raise_py('ValueError', node)
    acc = vals[0]
    for v in vals[1:]:
        c = I.compare(ast.Lt() if is_min else ast.Gt(), v, acc, node)
        if isinstance(c, bool):
            acc = v if c else acc
        else:
            za, zb = I._coerce_pair(v, acc)
            acc = z3.If(c, za, zb)
    return acc


def _b_min(I, args, kwargs, node):
    return _b_max(I, args, kwargs, node, is_min=True)


def _b_hasattr(I, args, kwargs, node):
    o, name = args
    if isinstance(o, Rec) and isinstance(name, str):
        return name in o.fields
    raise Unsupported('hasattr on %r' % (o,))


def _b_getattr(I, args, kwargs, node):
    if len(args) < 2 or not isinstance(args[1], str):
        raise Unsupported('getattr with a computed attribute name')
    o = args[0]
    if isinstance(o, Rec):
        if args[1] in o.fields:
            return o.fields[args[1]]
        if len(args) == 3:
            return args[2]
        I.raise_py('AttributeError', node)
    raise Unsupported('getattr on %r' % (o,))


def _b_type(I, args, kwargs, node):
    (v,) = args
    if isinstance(v, PyRaise):
        return Rec('type', {'__name__': v.cls.split('.')[-1]})
    if isinstance(v, Obj):
        return Rec('type', {'__name__': UF('type.__name__', ObjS, StrS)(v.expr)})
    if isinstance(v, (bool, int, float, str, list, dict, tuple)):
        return Rec('type', {'__name__': type(v).__name__})
    if is_sym(v):
        return Rec('type', {'__name__': {StrS: 'str', IntS: 'int', RealS: 'float', BoolS: 'bool'}.get(v.sort(), 'object')})
    raise Unsupported('type(%r)' % (v,))


EXTERNALS = {'collections.defaultdict': 'defaultdict'}

class EqToEach:
    """the booleans (c == value for c in column), kept as the question they answer under any()"""

    def __init__(self, column, value):
        self.column, self.value = column, value


def _b_any(I, args, kwargs, node, is_all=False):
    if isinstance(args[0], EqToEach) and not is_all:
        return I.contains(args[0].column, args[0].value, node)
    items = I.concrete_items(args[0])
    if items is None:
        raise Unsupported('any/all over a symbolic collection')
    ts = [I.truthy(x) for x in items]
    if is_all:
        if any(t is False for t in ts):
            return False
        ts = [to_z3(t) for t in ts if t is not True]
        return z3.And(*ts) if ts else True
    if any(t is True for t in ts):
        return True
    ts = [to_z3(t) for t in ts if t is not False]
    return z3.Or(*ts) if ts else False


def _b_all(I, args, kwargs, node):
    return _b_any(I, args, kwargs, node, True)


BUILTINS = {
    'any': _b_any, 'all': _b_all,
    'len': _b_len, 'abs': _b_abs, 'bool': _b_bool, 'set': _b_set, 'list': _b_list, 'dict': _b_dict,
    'print': _b_print, 'isinstance': _b_isinstance, 'str': _b_str, 'tuple': _b_tuple,
    'enumerate': _b_enumerate, 'zip': _b_zip, 'range': _b_range, 'sum': _b_sum, 'sorted': _b_sorted,
    'float': _b_float, 'int': _b_int, 'max': _b_max, 'min': _b_min, 'round': _b_round, 'getattr': _b_getattr, 'hasattr': _b_hasattr,
    'iter': _b_iter, 'next': _b_next,
    'defaultdict': _b_defaultdict, 'type': _b_type, 'frozenset': _b_set,          # frozenset(x): an immutable set - same abstract value; as a class name in isinstance it is its own name
}
