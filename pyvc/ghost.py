"""Ghost (specification) functions defined by primitive recursion on an index.

They are uninterpreted functions; the engine instantiates the two defining equations where a
proof step needs them (0 and k -> k+1).  No solver-side recursion is used (z3 RecFunction hung in
the design spike).  Being definitions by well-founded recursion they are a conservative
extension, not assumptions about the code.
"""
import z3

from .values import UF, IntS


class Ghost:
    def __init__(self, name, arg_sorts, res_sort, base, step):
        """f(args..., k): f(args, 0) = base(*args); f(args, k+1) = step(*args, k, f(args, k))."""
        self.name = name
        self.f = UF(name, *(list(arg_sorts) + [IntS, res_sort]))
        self.base = base
        self.step = step

    def __call__(self, *args):
        return self.f(*args)

    def unfold(self, *args_k):
        args, k = args_k[:-1], args_k[-1]
        out = [self.f(*args, z3.IntVal(0)) == self.base(*args)]
        if not (z3.is_int_value(k) and k.as_long() < 0):
            out.append(z3.Implies(k >= 0, self.f(*args, k + 1) == self.step(*args, k, self.f(*args, k))))
        return out
