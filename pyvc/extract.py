"""Extraction of the real functions from /repo's working tree (re-read on every run).

What extraction drops (and nothing else): docstrings, type annotations, decorators other than
@property/@staticmethod/@classmethod/@dataclass.  `print(...)` is kept in the AST and modelled by
the interpreter as a console no-op.
"""
import ast
import hashlib
import os

REPO = os.environ.get('PYVC_REPO', '/repo')
SRC = os.path.join(REPO, 'src')


class ExtractionError(Exception):
    pass


class Module:
    def __init__(self, modname):
        self.name = modname
        rel = modname.replace('.', '/')
        cand = [os.path.join(SRC, rel + '.py'), os.path.join(SRC, rel, '__init__.py')]
        for p in cand:
            if os.path.exists(p):
                self.path = p
                break
        else:
            raise ExtractionError('module %s not found under %s' % (modname, SRC))
        with open(self.path, encoding='utf-8') as f:
            self.text = f.read()
        self.lines = self.text.split('\n')
        self.tree = ast.parse(self.text)
        self.functions = {}
        self.classes = {}
        self.globals_const = {}
        self.imports = {}       # local name -> dotted target
        for node in self.tree.body:
            if isinstance(node, (ast.FunctionDef,)):
                self.functions[node.name] = node
            elif isinstance(node, ast.ClassDef):
                self.classes[node.name] = node
            elif isinstance(node, ast.Assign) and len(node.targets) == 1 and isinstance(node.targets[0], ast.Name):
                self.globals_const[node.targets[0].id] = node.value
            elif isinstance(node, ast.AnnAssign) and isinstance(node.target, ast.Name) and node.value is not None:
                self.globals_const[node.target.id] = node.value
            elif isinstance(node, ast.Import):
                for a in node.names:
                    self.imports[a.asname or a.name.split('.')[0]] = a.name
            elif isinstance(node, ast.ImportFrom):
                base = node.module or ''
                if node.level:
                    pkg = modname.split('.')
                    pkg = pkg[:len(pkg) - node.level]
                    base = '.'.join(pkg + ([base] if base else []))
                for a in node.names:
                    self.imports[a.asname or a.name] = base + '.' + a.name

    def segment(self, node):
        return '\n'.join(self.lines[node.lineno - 1:node.end_lineno])


_cache = {}


def module(modname):
    if modname not in _cache:
        _cache[modname] = Module(modname)
    return _cache[modname]


def clear_cache():
    _cache.clear()


class FunctionInfo:
    def __init__(self, qualname, mod, node, cls=None):
        self.qualname = qualname
        self.mod = mod
        self.node = node
        self.cls = cls
        self.source = mod.segment(node)
        self.sha256 = hashlib.sha256(self.source.encode('utf-8')).hexdigest()
        self.file = os.path.relpath(mod.path, REPO)
        self.lines = (node.lineno, node.end_lineno)
        self.kind = 'function'
        for d in node.decorator_list:
            if isinstance(d, ast.Name) and d.id in ('property', 'staticmethod', 'classmethod'):
                self.kind = d.id

    def describe(self):
        return {'name': self.qualname, 'file': self.file, 'lines': list(self.lines), 'sha256': self.sha256}


def find_function(qualname):
    """qualname like 'tally.merchant_engine.MerchantEngine.match' or
    'tally.report.write_summary_file_vue.<locals>.make_merchant_id'."""
    parts = qualname.split('.')
    # longest module prefix that exists
    for i in range(len(parts) - 1, 0, -1):
        modname = '.'.join(parts[:i])
        try:
            mod = module(modname)
        except ExtractionError:
            continue
        rest = parts[i:]
        break
    else:
        raise ExtractionError('cannot resolve module of %s' % qualname)
    scope_body = mod.tree.body
    cls = None
    node = None
    for j, name in enumerate(rest):
        if name == '<locals>':
            continue
        found = None
        for n in scope_body:
            if isinstance(n, (ast.FunctionDef, ast.ClassDef)) and n.name == name:
                found = n
        if found is None and node is not None and isinstance(node, ast.FunctionDef):
            for n in ast.walk(node):
                if isinstance(n, ast.FunctionDef) and n.name == name and n is not node:
                    found = n
                    break
        if found is None:
            raise ExtractionError('%s: %s not found' % (qualname, name))
        if isinstance(found, ast.ClassDef):
            cls = found
        node = found
        scope_body = found.body
    if not isinstance(node, ast.FunctionDef):
        raise ExtractionError('%s is not a function' % qualname)
    return FunctionInfo(qualname, mod, node, cls)


def class_info(modname, clsname):
    mod = module(modname)
    if clsname not in mod.classes:
        raise ExtractionError('class %s.%s not found' % (modname, clsname))
    return mod.classes[clsname]


def class_members(clsnode):
    """(fields with default/annotation, methods, properties) of a class read from source."""
    fields, methods, props = {}, {}, {}
    for n in clsnode.body:
        if isinstance(n, ast.AnnAssign) and isinstance(n.target, ast.Name):
            fields[n.target.id] = (n.annotation, n.value)
        elif isinstance(n, ast.FunctionDef):
            is_prop = any(isinstance(d, ast.Name) and d.id == 'property' for d in n.decorator_list)
            (props if is_prop else methods)[n.name] = n
    return fields, methods, props
