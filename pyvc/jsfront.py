"""A small JavaScript-subset front end (C13): parses the classification block of
spending_report.js on every run and executes it symbolically over the same value model as the
Python functions.  Anything outside the subset raises Unsupported (=> UNDECIDED).

Subset: const/let declarations, function declarations, return, if/else, for (const x of <Set
constant>), expression statements, assignments to identifiers and obj.prop, object and array
literals, new Set(<array>), arrow functions with one identifier parameter and an expression body,
member calls Math.abs / .has / .map / .toLowerCase / .some, ||, &&, !, comparisons (=== == !== !=
< <= > >=), + - * /, unary -, numbers, strings, true/false/null/undefined.

Translation table (assumption A11):  numbers <-> mathematical reals;  x || []  <->  x or []  (null /
undefined / missing tags behave as the empty list);  Math.abs <-> abs;  Set.has <-> in;
new Set(xs.map(f)) <-> {f(t) for t in xs};  String.toLowerCase <-> str.lower (one shared uninterpreted
function; justified by the exhaustive code-point comparison run by the C13 oracle).
"""
import re

import z3

from .core import Unsupported
from .values import SymSeq, SymSet, UF, StrS, RealS, IntS, BoolS, to_z3, is_sym, set_expr

TOKEN = re.compile(r'''
    (?P<ws>\s+|//[^\n]*|/\*.*?\*/)
  | (?P<num>\d+\.\d+|\d+)
  | (?P<str>'(?:[^'\\]|\\.)*'|"(?:[^"\\]|\\.)*")
  | (?P<id>[A-Za-z_$][A-Za-z0-9_$]*)
  | (?P<op>===|!==|=>|==|!=|<=|>=|\|\||&&|[-+*/%(){}\[\],;.:<>=!?])
''', re.S | re.X)


def tokenize(src):
    out, pos = [], 0
    while pos < len(src):
        m = TOKEN.match(src, pos)
        if not m:
            raise Unsupported('JS: cannot tokenize at %r' % src[pos:pos + 20])
        pos = m.end()
        if m.lastgroup == 'ws':
            continue
        out.append((m.lastgroup, m.group()))
    out.append(('eof', ''))
    return out


class Parser:
    def __init__(self, toks):
        self.t = toks
        self.p = 0

    def peek(self, k=0):
        return self.t[self.p + k]

    def next(self):
        tok = self.t[self.p]
        self.p += 1
        return tok

    def accept(self, v):
        if self.peek()[1] == v and self.peek()[0] in ('op', 'id'):
            self.p += 1
            return True
        return False

    def expect(self, v):
        if not self.accept(v):
            raise Unsupported('JS: expected %r, got %r' % (v, self.peek()[1]))

    # statements
    def program(self):
        body = []
        while self.peek()[0] != 'eof':
            body.append(self.statement())
        return body

    def block(self):
        self.expect('{')
        body = []
        while not self.accept('}'):
            body.append(self.statement())
        return body

    def statement(self):
        k, v = self.peek()
        if v in ('const', 'let', 'var') and k == 'id':
            self.next()
            if self.peek()[1] == '{':
                # destructuring import line such as `const { createApp, ... } = Vue;` - not ours
                raise Unsupported('JS: destructuring declaration')
            name = self.next()[1]
            self.expect('=')
            e = self.expr()
            self.accept(';')
            return ('decl', name, e)
        if v == 'function' and k == 'id':
            self.next()
            name = self.next()[1]
            self.expect('(')
            params = []
            while not self.accept(')'):
                params.append(self.next()[1])
                self.accept(',')
            return ('func', name, params, self.block())
        if v == 'return' and k == 'id':
            self.next()
            e = None
            if self.peek()[1] != ';':
                e = self.expr()
            self.accept(';')
            return ('return', e)
        if v == 'if' and k == 'id':
            self.next()
            self.expect('(')
            c = self.expr()
            self.expect(')')
            then = self.block() if self.peek()[1] == '{' else [self.statement()]
            els = []
            if self.accept('else'):
                els = self.block() if self.peek()[1] == '{' else [self.statement()]
            return ('if', c, then, els)
        if v == 'for' and k == 'id':
            self.next()
            self.expect('(')
            if self.next()[1] not in ('const', 'let'):
                raise Unsupported('JS: only for (const x of ...) loops')
            name = self.next()[1]
            self.expect('of')
            it = self.expr()
            self.expect(')')
            body = self.block() if self.peek()[1] == '{' else [self.statement()]
            return ('forof', name, it, body)
        e = self.expr()
        if self.accept('='):
            rhs = self.expr()
            self.accept(';')
            return ('assign', e, rhs)
        self.accept(';')
        return ('expr', e)

    # expressions (precedence climbing)
    def expr(self):
        return self.ternary()

    def ternary(self):
        c = self.or_()
        if self.accept('?'):
            a = self.expr()
            self.expect(':')
            b = self.expr()
            return ('cond', c, a, b)
        return c

    def or_(self):
        e = self.and_()
        while self.accept('||'):
            e = ('or', e, self.and_())
        return e

    def and_(self):
        e = self.eq()
        while self.accept('&&'):
            e = ('and', e, self.eq())
        return e

    def eq(self):
        e = self.rel()
        while self.peek()[1] in ('===', '!==', '==', '!='):
            op = self.next()[1]
            e = ('cmp', op, e, self.rel())
        return e

    def rel(self):
        e = self.add()
        while self.peek()[1] in ('<', '<=', '>', '>=') and self.peek()[0] == 'op':
            op = self.next()[1]
            e = ('cmp', op, e, self.add())
        return e

    def add(self):
        e = self.mul()
        while self.peek()[1] in ('+', '-') and self.peek()[0] == 'op':
            op = self.next()[1]
            e = ('bin', op, e, self.mul())
        return e

    def mul(self):
        e = self.unary()
        while self.peek()[1] in ('*', '/') and self.peek()[0] == 'op':
            op = self.next()[1]
            e = ('bin', op, e, self.unary())
        return e

    def unary(self):
        if self.accept('!'):
            return ('not', self.unary())
        if self.peek() == ('op', '-'):
            self.next()
            return ('neg', self.unary())
        return self.postfix()

    def postfix(self):
        e = self.primary()
        while True:
            if self.accept('.'):
                e = ('member', e, self.next()[1])
            elif self.peek() == ('op', '('):
                self.next()
                args = []
                while not self.accept(')'):
                    args.append(self.expr())
                    self.accept(',')
                e = ('call', e, args)
            elif self.peek() == ('op', '['):
                raise Unsupported('JS: computed member access')
            else:
                return e

    def primary(self):
        k, v = self.next()
        if k == 'num':
            return ('num', v)
        if k == 'str':
            body = v[1:-1]
            if '\\' in body:
                raise Unsupported('JS: string escapes')
            return ('str', body)
        if k == 'id':
            if v == 'new':
                cls = self.next()[1]
                self.expect('(')
                args = []
                while not self.accept(')'):
                    args.append(self.expr())
                    self.accept(',')
                return ('new', cls, args)
            if self.peek() == ('op', '=>'):
                self.next()
                if self.peek()[1] == '{':
                    raise Unsupported('JS: arrow function with block body')
                return ('arrow', [v], self.expr())
            return ('id', v)
        if v == '(':
            # parenthesised expression or (a, b) => ...
            save = self.p
            e = self.expr()
            self.expect(')')
            if self.peek() == ('op', '=>'):
                raise Unsupported('JS: parenthesised arrow parameters')
            return e
        if v == '{':
            props = []
            while not self.accept('}'):
                key = self.next()[1]
                self.expect(':')
                props.append((key, self.expr()))
                self.accept(',')
            return ('object', props)
        if v == '[':
            items = []
            while not self.accept(']'):
                items.append(self.expr())
                self.accept(',')
            return ('array', items)
        raise Unsupported('JS: unexpected token %r' % v)


def extract_block(text, start_marker='TRANSACTION CLASSIFICATION'):
    """The text between the banner comment containing start_marker and the next `// ====` banner."""
    lines = text.split('\n')
    start = None
    for i, l in enumerate(lines):
        if start_marker in l:
            start = i + 2 if i + 1 < len(lines) and lines[i + 1].startswith('// ===') else i + 1
            break
    if start is None:
        raise Unsupported('JS: banner %r not found' % start_marker)
    end = None
    for j in range(start, len(lines)):
        if lines[j].startswith('// ====='):
            end = j
            break
    if end is None:
        raise Unsupported('JS: closing banner not found')
    block = '\n'.join(lines[start:end])
    block = re.sub(r'/\*\*.*?\*/', '', block, flags=re.S)
    return block, (start + 1, end)


class JSReturn(Exception):
    def __init__(self, v):
        self.v = v


class JSObject:
    def __init__(self, props):
        self.props = props


class JSArrow:
    def __init__(self, params, body, env):
        self.params, self.body, self.env = params, body, env


UNDEF = ('undefined',)


class JSInterp:
    """Symbolic execution of the parsed block.  map_set_hook(seq: SymSeq, arrow) implements the
    translation-table entry  new Set(xs.map(f))  (a loop with the contract's invariant)."""

    def __init__(self, ctx, program, map_set_hook):
        self.ctx = ctx
        self.globals = {}
        self.funcs = {}
        self.map_set_hook = map_set_hook
        for st in program:
            if st[0] == 'func':
                self.funcs[st[1]] = st
        for st in program:
            if st[0] == 'decl':
                self.globals[st[1]] = self.ev(st[2], self.globals)

    def call(self, name, args):
        if name not in self.funcs:
            raise Unsupported('JS: function %s not found' % name)
        _, _, params, body = self.funcs[name]
        env = dict(self.globals)
        for i, p in enumerate(params):
            env[p] = args[i] if i < len(args) else UNDEF
        try:
            self.block(body, env)
        except JSReturn as r:
            return r.v
        return UNDEF

    def block(self, body, env):
        for st in body:
            self.stmt(st, env)

    def truthy(self, v):
        if v is UNDEF or v is None:
            return False
        if isinstance(v, bool):
            return v
        if isinstance(v, (int, float)):
            return v != 0
        if isinstance(v, str):
            return v != ''
        if isinstance(v, (SymSeq, SymSet, JSObject, list)):
            return True          # objects (incl. empty arrays) are truthy in JS
        if is_sym(v):
            if v.sort() == BoolS:
                return v
            if v.sort() in (RealS, IntS):
                return v != 0
            if v.sort() == StrS:
                return z3.Length(v) > 0
        raise Unsupported('JS: truthiness of %r' % (v,))

    def stmt(self, st, env):
        k = st[0]
        if k == 'decl':
            env[st[1]] = self.ev(st[2], env)
        elif k == 'return':
            raise JSReturn(self.ev(st[1], env) if st[1] is not None else UNDEF)
        elif k == 'if':
            if self.ctx.branch(self.truthy(self.ev(st[1], env)), 'js.if'):
                self.block(st[2], env)
            else:
                self.block(st[3], env)
        elif k == 'forof':
            it = self.ev(st[2], env)
            if not isinstance(it, (list, tuple)) and not (isinstance(it, SymSet) and hasattr(it, 'concrete')):
                raise Unsupported('JS: for-of over a non-constant collection')
            items = it if isinstance(it, (list, tuple)) else it.concrete
            for x in items:
                env[st[1]] = x
                self.block(st[3], env)
        elif k == 'assign':
            tgt = st[1]
            v = self.ev(st[2], env)
            if tgt[0] == 'id':
                env[tgt[1]] = v
            elif tgt[0] == 'member':
                o = self.ev(tgt[1], env)
                if not isinstance(o, JSObject):
                    raise Unsupported('JS: property store on non-object')
                o.props[tgt[2]] = v
            else:
                raise Unsupported('JS: assignment target')
        elif k == 'expr':
            self.ev(st[1], env)
        elif k == 'func':
            pass
        else:
            raise Unsupported('JS: statement %s' % k)

    def num(self, v):
        if isinstance(v, bool):
            raise Unsupported('JS: boolean in arithmetic')
        if isinstance(v, (int, float)):
            return z3.RealVal(repr(float(v)))
        if is_sym(v) and v.sort() == RealS:
            return v
        if is_sym(v) and v.sort() == IntS:
            return z3.ToReal(v)
        raise Unsupported('JS: non-number in arithmetic: %r' % (v,))

    def ev(self, e, env):
        k = e[0]
        if k == 'num':
            return float(e[1])
        if k == 'str':
            return e[1]
        if k == 'id':
            n = e[1]
            if n in env:
                return env[n]
            if n == 'true':
                return True
            if n == 'false':
                return False
            if n in ('null', 'undefined'):
                return UNDEF
            if n == 'Math':
                return ('Math',)
            raise Unsupported('JS: unknown identifier %s' % n)
        if k == 'object':
            return JSObject({key: self.ev(v, env) for key, v in e[1]})
        if k == 'array':
            return [self.ev(x, env) for x in e[1]]
        if k == 'arrow':
            return JSArrow(e[1], e[2], env)
        if k == 'new':
            if e[1] != 'Set' or len(e[2]) > 1:
                raise Unsupported('JS: new %s' % e[1])
            if not e[2]:
                return SymSet()
            arg = e[2][0]
            # translation-table entry: new Set(xs.map(f))
            if arg[0] == 'call' and arg[1][0] == 'member' and arg[1][2] == 'map' and len(arg[2]) == 1:
                xs = self.ev(arg[1][1], env)
                f = self.ev(arg[2][0], env)
                if isinstance(xs, list) and not xs:
                    return SymSet(z3.EmptySet(StrS))
                if isinstance(xs, SymSeq) and isinstance(f, JSArrow):
                    return self.map_set_hook(self, xs, f)
                raise Unsupported('JS: new Set(xs.map(f)) over %r' % (xs,))
            v = self.ev(arg, env)
            if isinstance(v, list):
                s = SymSet()
                for x in v:
                    s.add(x)
                s.concrete = list(v)
                return s
            raise Unsupported('JS: new Set(%r)' % (v,))
        if k == 'or':
            a = self.ev(e[1], env)
            if self.ctx.branch(self.truthy(a), 'js.or'):
                return a
            return self.ev(e[2], env)
        if k == 'and':
            a = self.ev(e[1], env)
            if not self.ctx.branch(self.truthy(a), 'js.and'):
                return a
            return self.ev(e[2], env)
        if k == 'not':
            t = self.truthy(self.ev(e[1], env))
            return (not t) if isinstance(t, bool) else z3.Not(t)
        if k == 'neg':
            return -self.num(self.ev(e[1], env))
        if k == 'cond':
            if self.ctx.branch(self.truthy(self.ev(e[1], env)), 'js.cond'):
                return self.ev(e[2], env)
            return self.ev(e[3], env)
        if k == 'bin':
            a, b = self.num(self.ev(e[2], env)), self.num(self.ev(e[3], env))
            if e[1] == '+':
                return a + b
            if e[1] == '-':
                return a - b
            if e[1] == '*':
                return a * b
            raise Unsupported('JS: operator %s' % e[1])
        if k == 'cmp':
            a, b = self.ev(e[2], env), self.ev(e[3], env)
            op = e[1]
            if op in ('<', '<=', '>', '>='):
                a, b = self.num(a), self.num(b)
                return {'<': a < b, '<=': a <= b, '>': a > b, '>=': a >= b}[op]
            if isinstance(a, str) or isinstance(b, str) or (is_sym(a) and a.sort() == StrS):
                r = to_z3(a, StrS) == to_z3(b, StrS)
            else:
                r = self.num(a) == self.num(b)
            return r if op in ('===', '==') else z3.Not(r)
        if k == 'member':
            o = self.ev(e[1], env)
            if isinstance(o, JSObject):
                return o.props.get(e[2], UNDEF)
            raise Unsupported('JS: property read .%s' % e[2])
        if k == 'call':
            f = e[1]
            args = [self.ev(a, env) for a in e[2]]
            if f[0] == 'id':
                if f[1] in self.funcs:
                    return self.call(f[1], args)
                raise Unsupported('JS: call of %s' % f[1])
            if f[0] == 'member':
                o = self.ev(f[1], env)
                m = f[2]
                if isinstance(o, tuple) and o == ('Math',) and m == 'abs' and len(args) == 1:
                    a = self.num(args[0])
                    return z3.If(a >= 0, a, -a)
                if isinstance(o, SymSet) and m == 'has' and len(args) == 1:
                    if o.expr is None:
                        return False
                    return o.contains(args[0])
                if m == 'toLowerCase' and not args and (isinstance(o, str) or (is_sym(o) and o.sort() == StrS)):
                    return UF('str.lower', StrS, StrS)(to_z3(o, StrS))
                if m == 'some' and len(args) == 1 and isinstance(args[0], JSArrow) and isinstance(o, (SymSeq, list)) and len(args[0].params) == 1:
                    # translation-table entry: xs.some(t => S.has(t)) with S a set of constants  ==  some element of xs is one of the constants
                    body, prm = args[0].body, args[0].params[0]
                    if body[0] == 'call' and body[1][0] == 'member' and body[1][2] == 'has' and len(body[2]) == 1 and body[2][0] == ('id', prm):
                        st = self.ev(body[1][1], args[0].env)
                        consts = getattr(st, 'concrete', None)
                        if isinstance(st, SymSet) and consts is not None and all(isinstance(c, str) for c in consts):
                            if isinstance(o, list):
                                return any(x in consts for x in o) if all(isinstance(x, str) for x in o) else \
                                    z3.Or(*[to_z3(x, StrS) == z3.StringVal(c) for x in o for c in consts]) if o else False
                            return z3.Or(*[z3.Contains(o.cols[0], z3.Unit(z3.StringVal(c))) for c in consts]) if consts else False
                    raise Unsupported('JS: .some with a callback outside the translation table')
                raise Unsupported('JS: method .%s on %r' % (m, o))
            raise Unsupported('JS: call form')
        raise Unsupported('JS: expression %s' % k)

    def apply_arrow(self, f, args):
        env = dict(f.env)
        for p, a in zip(f.params, args):
            env[p] = a
        return self.ev(f.body, env)
